"""Synthetic plugin modules: generated plugin classes that Deep's own loader imports by dotted name."""
import sys
import types

from deep.api.attributes import BoundedAttributes
from deep.api.plugin import Plugin, ResourceProvider, SnapshotDecorator, TracepointLogger
from deep.api.plugin.metric import MetricProcessor
from deep.api.plugin.span import SpanProcessor, Span
from deep.api.resource import Resource

ROLE_BASES = {'resource': ResourceProvider, 'decorator': SnapshotDecorator, 'logger': TracepointLogger,
              'span': SpanProcessor, 'metric': MetricProcessor}


class PluginFault(Exception):
    pass


class PluginBaseFault(BaseException):
    pass


class World:
    """Everything the synthetic plugins of one case did, in one timeline."""

    def __init__(self):
        self.instances = []
        self.calls = []          # (plugin name, callback, detail)
        self.spans = []
        self.fired = []

    def by_plugin(self, name):
        return [c for c in self.calls if c[0] == name]


class SynSpan(Span):
    def __init__(self, plugin, name):
        self.plugin = plugin
        self._name = name
        self.closed = 0

    @property
    def name(self):
        return self._name

    @property
    def trace_id(self):
        return 't'

    @property
    def span_id(self):
        return 's'

    def add_attribute(self, key, value):
        # calls into the plugin's span like create / close: they can fail like those
        self.plugin._call('span_event', 'attribute')

    def add_event(self, name, attributes=None):
        self.plugin._call('span_event', 'event')

    def close(self):
        self.closed += 1
        self.plugin._call('close', self._name)


def make_class(world, spec):
    """spec: {name, roles, order, ctor: ok|raises, active: bool, faults: {callback: [when, 'E'|'B']}}"""
    bases = tuple(ROLE_BASES[r] for r in spec['roles']) or (Plugin,)
    name = spec['name']
    faults = spec.get('faults') or {}
    counts = {}

    def _call(self, cb, detail=None):
        n = counts.get(cb, 0) + 1
        counts[cb] = n
        world.calls.append((name, cb, detail))
        f = faults.get(cb)
        if f is not None:
            when, code = f
            if when == 'all' or when == n:
                world.fired.append((name, cb, n))
                if code == 'D':
                    # the exception a plugin uses to say that it cannot work here, raised late (from a callback)
                    from deep.api.plugin import DidNotEnable
                    raise DidNotEnable('%s.%s call %d' % (name, cb, n))
                raise (PluginBaseFault if code == 'B' else PluginFault)('%s.%s call %d' % (name, cb, n))

    def __init__(self, config=None):
        Plugin.__init__(self, name=spec.get('display') or name, config=config)
        if spec.get('ctor') == 'raises':
            raise PluginFault('%s constructor' % name)
        world.instances.append(self)
        self.spec = spec

    def order(self):
        return spec.get('order', 0)

    def is_active(self):
        if spec.get('state') == 'is_active_raises':
            from deep.api.plugin import DidNotEnable
            raise DidNotEnable('%s: dependency missing' % name)
        return Plugin.is_active(self)

    def shutdown(self):
        self._call('shutdown')
        if spec.get('leaves_on_shutdown'):
            # a plugin that takes itself off the agent's list when it is shut down
            try:
                self.config.plugins.remove(self)
            except (ValueError, AttributeError):
                pass

    def resource(self):
        self._call('resource')
        if spec.get('resource_none'):
            return None
        return Resource(dict(spec.get('attrs') or {'res_' + name: name, 'shared_key': name}))

    def decorate(self, snapshot_id, context):
        self._call('decorate', snapshot_id)
        return BoundedAttributes(attributes={'dec_' + name: name})

    def log_tracepoint(self, log_msg, tp_id, ctx_id):
        self._call('log_tracepoint', (log_msg, tp_id, ctx_id))

    def create_span(self, sname, context_id, tracepoint_id):
        self._call('create_span', sname)
        s = SynSpan(self, sname)
        world.spans.append(s)
        return s

    def current_span(self):
        return None

    def counter(self, mname, labels, namespace, help_string, unit, value):
        self._call('counter', (mname, value))

    def gauge(self, mname, labels, namespace, help_string, unit, value):
        self._call('gauge', (mname, value))

    def histogram(self, mname, labels, namespace, help_string, unit, value):
        self._call('histogram', (mname, value))

    def summary(self, mname, labels, namespace, help_string, unit, value):
        self._call('summary', (mname, value))

    ns = dict(__init__=__init__, order=order, is_active=is_active, shutdown=shutdown, _call=_call, resource=resource, decorate=decorate,
              log_tracepoint=log_tracepoint, create_span=create_span, current_span=current_span, counter=counter,
              gauge=gauge, histogram=histogram, summary=summary)
    return type(name, bases, ns)


_counter = [0]


def make_module(world, specs):
    """-> (list of dotted names for config PLUGINS, module name).  state 'missing_module' / 'missing_class' produce
    names that cannot be imported."""
    _counter[0] += 1
    mname = 'vf_synplug_%d' % _counter[0]
    mod = types.ModuleType(mname)
    dotted = []
    for spec in specs:
        st = spec.get('state', 'ok')
        if st == 'missing_module':
            dotted.append('vf_no_such_module_%d.%s' % (_counter[0], spec['name']))
            continue
        if st == 'missing_class':
            dotted.append('%s.%s_absent' % (mname, spec['name']))
            continue
        setattr(mod, spec['name'], make_class(world, spec))
        dotted.append('%s.%s' % (mname, spec['name']))
    sys.modules[mname] = mod
    return dotted, mname


def drop_module(mname):
    sys.modules.pop(mname, None)
