"""The lab: real agent objects from the working tree, fake edges (clock, channel, executor, plugins)."""
import concurrent.futures
import linecache
import logging
import os
import sys
import threading

from vf.core import REPO, HarnessError

_SRC = os.path.join(REPO, 'src')
if _SRC not in sys.path:
    sys.path.insert(0, _SRC)

import deep  # noqa: E402
import deep.utils  # noqa: E402
from deep.api.plugin import TracepointLogger, SnapshotDecorator, ResourceProvider, Plugin  # noqa: E402
from deep.api.plugin.metric import MetricProcessor  # noqa: E402
from deep.api.plugin.span import SpanProcessor, Span  # noqa: E402
from deep.api.resource import Resource  # noqa: E402
from deep.api.attributes import BoundedAttributes  # noqa: E402
from deep.config import ConfigService  # noqa: E402
from deep.config.tracepoint_config import TracepointConfigService  # noqa: E402
from deep.processor.trigger_handler import TriggerHandler  # noqa: E402
from deep.thread_local import ThreadLocal  # noqa: E402


def assert_repo():
    f = os.path.realpath(deep.__file__)
    if not f.startswith(os.path.realpath(_SRC) + os.sep):
        raise HarnessError('deep imported from %s, not from %s' % (f, _SRC))


# --------------------------------------------------------------------------------------------
# agent log capture (agent-side errors are logged, never program output)

class LogCapture(logging.Handler):
    def __init__(self):
        super().__init__(level=logging.DEBUG)
        self.records = []
        self.enabled = True

    def emit(self, record):
        if not self.enabled:
            return
        if record.levelno >= logging.WARNING:
            # only the bucket is kept: a record with exc_info holds the traceback, the traceback holds the agent's
            # frames, and those hold the paused application frame - keeping it would keep host objects alive (and
            # delay their finalisers) on account of the harness
            if record.exc_info and record.exc_info[1] is not None:
                self.records.append(exc_bucket(record.exc_info[1]))
            else:
                try:
                    self.records.append('log:' + str(record.msg)[:60])
                except Exception:
                    self.records.append('log:?')

    def clear(self):
        self.records = []

    def errors(self):
        """Error records bucketed by (exception type, innermost deep function)."""
        return list(self.records)


def exc_bucket(exc):
    """(type, innermost frame inside deep/) of an exception - the root-cause key."""
    tb = exc.__traceback__
    inner = None
    while tb is not None:
        fn = tb.tb_frame.f_code.co_filename
        if (os.sep + 'deep' + os.sep) in fn and '/vf/' not in fn:
            inner = '%s:%s' % (os.path.basename(fn), tb.tb_frame.f_code.co_name)
        tb = tb.tb_next
    return '%s@%s' % (type(exc).__name__, inner)


LOGS = LogCapture()
_deep_logger = logging.getLogger('deep')
_deep_logger.addHandler(LOGS)
_deep_logger.propagate = False
_deep_logger.setLevel(logging.WARNING)
_root = logging.getLogger()
_root.addHandler(LOGS)
_root.setLevel(logging.WARNING)


# --------------------------------------------------------------------------------------------
# virtual clock

class Clock:
    def __init__(self):
        self.now = 1_700_000_000_000_000_000
        self.hook = None            # optional callable invoked at every read (a yield point)
        self.auto = 0               # ns added at every read

    def now_ns(self):
        h = self.hook
        if h is not None:
            h()
        self.now += self.auto
        return self.now

    def advance_ms(self, ms):
        self.now += int(ms * 1_000_000)

    def advance_ns(self, ns):
        self.now += int(ns)


CLOCK = Clock()
_CLOCK_MODULES = ['deep.processor.context.trigger_context', 'deep.processor.frame_collector',
                  'deep.processor.context.snapshot_action',
                  'deep.api.tracepoint.eventsnapshot', 'deep.poll.poll', 'deep.utils']
_real_time_ns = deep.utils.time_ns


def _clock_modules():
    # every module of the agent that has bound the clock function at import (a later revision can add one)
    import importlib
    for m in _CLOCK_MODULES:
        importlib.import_module(m)
    return sorted(set(_CLOCK_MODULES) | {n for n, mod in list(sys.modules.items())
                                         if n.startswith('deep.') and mod is not None and hasattr(mod, 'time_ns')})


def install_clock():
    import importlib
    for m in _clock_modules():
        mod = importlib.import_module(m)
        if hasattr(mod, 'time_ns'):
            setattr(mod, 'time_ns', CLOCK.now_ns)


def uninstall_clock():
    import importlib
    for m in _clock_modules():
        mod = importlib.import_module(m)
        if hasattr(mod, 'time_ns'):
            setattr(mod, 'time_ns', _real_time_ns)


def reset_clock():
    CLOCK.now = 1_700_000_000_000_000_000
    CLOCK.hook = None
    CLOCK.auto = 0


# --------------------------------------------------------------------------------------------
# recording plugins

class Faulty:
    """Mixin: raise on configured (callback, nth call)."""

    def _init_faults(self, faults=None):
        self._faults = dict(faults or {})      # callback -> (set of call indexes or 'all', exception class)
        self._calls = {}
        self.fired = []

    def _maybe_fail(self, callback):
        n = self._calls.get(callback, 0) + 1
        self._calls[callback] = n
        spec = self._faults.get(callback)
        if spec is not None:
            when, exc = spec
            if when == 'all' or n in when:
                self.fired.append((callback, n))
                raise exc('%s failed in %s call %d' % (self.name, callback, n))


class RecLogger(TracepointLogger, Faulty):
    def __init__(self, name='RecLogger', faults=None, order=0, config=None):
        super().__init__(name=name, config=config)
        self._init_faults(faults)
        self.calls = []
        self._order = order

    def order(self):
        return self._order

    def log_tracepoint(self, log_msg, tp_id, ctx_id):
        self.calls.append((log_msg, tp_id, ctx_id, threading.current_thread().name))
        self._maybe_fail('log_tracepoint')

    def shutdown(self):
        self.calls.append(('<shutdown>',))
        self._maybe_fail('shutdown')


class RecDecorator(SnapshotDecorator, Faulty):
    def __init__(self, name='RecDecorator', attrs=None, faults=None, order=0, config=None):
        super().__init__(name=name, config=config)
        self._init_faults(faults)
        self.attrs = attrs if attrs is not None else {'dec_' + name: name}
        self.calls = []
        self._order = order
        self.shutdowns = 0

    def order(self):
        return self._order

    def decorate(self, snapshot_id, context):
        self.calls.append(snapshot_id)
        self._maybe_fail('decorate')
        return BoundedAttributes(attributes=dict(self.attrs))

    def shutdown(self):
        self.shutdowns += 1
        self._maybe_fail('shutdown')


class RecSpan(Span):
    def __init__(self, proc, name, ctx_id, tp_id):
        self._name = name
        self.proc = proc
        self.ctx_id = ctx_id
        self.tp_id = tp_id
        self.closed = 0
        self.open_thread = threading.current_thread().name
        self.close_threads = []
        self.sid = len(proc.spans)

    @property
    def name(self):
        return self._name

    @property
    def trace_id(self):
        return 't%d' % self.sid

    @property
    def span_id(self):
        return 's%d' % self.sid

    def add_attribute(self, key, value):
        pass

    def add_event(self, name, attributes=None):
        pass

    def close(self):
        self.closed += 1
        self.close_threads.append(threading.current_thread().name)
        self.proc.timeline.append(('close', self.sid, threading.current_thread().name))
        if self.proc.on_event:
            self.proc.on_event('close', self)
        self.proc._maybe_fail('close')


class RecSpanProcessor(SpanProcessor, Faulty):
    def __init__(self, name='RecSpanProcessor', faults=None, order=0, config=None):
        super().__init__(name=name, config=config)
        self._init_faults(faults)
        self.spans = []
        self.timeline = []
        self.on_event = None
        self._order = order
        self.shutdowns = 0

    def order(self):
        return self._order

    def create_span(self, name, context_id, tracepoint_id):
        self._maybe_fail('create_span')
        s = RecSpan(self, name, context_id, tracepoint_id)
        self.spans.append(s)
        self.timeline.append(('open', s.sid, threading.current_thread().name))
        if self.on_event:
            self.on_event('open', s)
        return s

    def current_span(self):
        return None

    def shutdown(self):
        self.shutdowns += 1
        self._maybe_fail('shutdown')


class RecMetricProcessor(MetricProcessor, Faulty):
    def __init__(self, name='RecMetricProcessor', faults=None, order=0, config=None):
        super().__init__(name=name, config=config)
        self._init_faults(faults)
        self.calls = []
        self._order = order
        self.shutdowns = 0

    def order(self):
        return self._order

    def _rec(self, kind, name, labels, namespace, help_string, unit, value):
        self.calls.append((kind, name, dict(labels), namespace, help_string, unit, value))
        self._maybe_fail(kind)

    def counter(self, name, labels, namespace, help_string, unit, value):
        self._rec('counter', name, labels, namespace, help_string, unit, value)

    def gauge(self, name, labels, namespace, help_string, unit, value):
        self._rec('gauge', name, labels, namespace, help_string, unit, value)

    def histogram(self, name, labels, namespace, help_string, unit, value):
        self._rec('histogram', name, labels, namespace, help_string, unit, value)

    def summary(self, name, labels, namespace, help_string, unit, value):
        self._rec('summary', name, labels, namespace, help_string, unit, value)

    def shutdown(self):
        self.shutdowns += 1
        self._maybe_fail('shutdown')


class RecResourceProvider(ResourceProvider, Faulty):
    def __init__(self, name='RecResourceProvider', attrs=None, faults=None, order=0, config=None, none=False):
        super().__init__(name=name, config=config)
        self._init_faults(faults)
        self.attrs = attrs or {}
        self._order = order
        self.none = none
        self.shutdowns = 0

    def order(self):
        return self._order

    def resource(self):
        self._maybe_fail('resource')
        if self.none:
            return None
        return Resource(dict(self.attrs))

    def shutdown(self):
        self.shutdowns += 1
        self._maybe_fail('shutdown')


# --------------------------------------------------------------------------------------------
# push recorder

class RecPush:
    """Stands in for PushService: records snapshots synchronously on the calling thread."""

    def __init__(self):
        self.snapshots = []
        self.threads = []
        self.on_push = None

    def push_snapshot(self, snapshot):
        self.snapshots.append(snapshot)
        self.threads.append(threading.current_thread().name)
        if self.on_push:
            self.on_push(snapshot)


# --------------------------------------------------------------------------------------------
# agent construction

def make_cfg(custom=None, plugins=None):
    cfg = ConfigService(dict(custom or {}), tracepoints=TracepointConfigService())
    cfg.resource = Resource.create()
    cfg.plugins = list(plugins or [])
    return cfg


def make_handler(triggers=None, custom=None, plugins=None, push=None):
    custom = dict(custom or {})
    custom.setdefault('APP_ROOT', '/app')
    cfg = make_cfg(custom, plugins)
    push = push if push is not None else RecPush()
    h = TriggerHandler(cfg, push)
    if triggers is not None:
        h.new_config(list(triggers))
    return h, cfg, push


# --------------------------------------------------------------------------------------------
# frames paused at a known location (suspended generator frames)

_frame_code_cache = {}


def frame_at(path, line, func='target', local_values=None, globs=None):
    """A real, paused frame of function `func` in file `path` at line `line` (>= 2)."""
    local_values = local_values or {}
    names = tuple(local_values.keys())
    key = (path, line, func, names)
    code = _frame_code_cache.get(key)
    if code is None:
        if line < 2:
            raise HarnessError('frame_at needs line >= 2')
        src = 'def %s(%s):\n' % (func, ', '.join(names)) + '\n' * (line - 2) + '    yield\n'
        code = compile(src, path, 'exec')
        _frame_code_cache[key] = code
    ns = dict(globs or {})
    ns.setdefault('__name__', 'hostmod')
    exec(code, ns)
    gen = ns[func](**local_values)
    next(gen)
    assert gen.gi_frame.f_lineno == line, (gen.gi_frame.f_lineno, line)
    return gen     # keep the generator alive; use gen.gi_frame


# --------------------------------------------------------------------------------------------
# executors

class InlinePool:
    """Executor that runs submitted work immediately on the calling thread."""

    def __init__(self):
        self.count = 0

    def submit(self, fn, *args, **kwargs):
        f = concurrent.futures.Future()
        self.count += 1
        try:
            f.set_result(fn(*args, **kwargs))
        except BaseException as e:      # noqa
            f.set_exception(e)
        return f

    def shutdown(self, wait=True, **kw):
        pass


class ManualFuture(concurrent.futures.Future):
    pass


class ManualPool:
    """Executor whose tasks run only when the harness says so (any order)."""

    def __init__(self):
        self.tasks = []     # (future, fn, args)

    def submit(self, fn, *args, **kwargs):
        f = ManualFuture()
        self.tasks.append((f, fn, args, kwargs))
        return f

    def pending(self):
        return [t for t in self.tasks if not t[0].done()]

    def run(self, idx=0):
        pend = self.pending()
        if not pend:
            return False
        f, fn, args, kwargs = pend[idx % len(pend)]
        if not f.set_running_or_notify_cancel():
            return True
        try:
            f.set_result(fn(*args, **kwargs))
        except BaseException as e:      # noqa
            f.set_exception(e)
        return True

    def run_all(self):
        n = 0
        while self.run(0):
            n += 1
            if n > 10000:
                raise HarnessError('ManualPool.run_all does not terminate')

    def shutdown(self, wait=True, **kw):
        pass


# --------------------------------------------------------------------------------------------
# fake gRPC channel

class FakeCallable:
    def __init__(self, channel, method, request_serializer, response_deserializer):
        self.channel = channel
        self.method = method
        self.ser = request_serializer
        self.deser = response_deserializer

    def __call__(self, request, timeout=None, metadata=None, credentials=None, wait_for_ready=None,
                 compression=None):
        raw = self.ser(request) if self.ser else request
        self.channel.calls.append({'method': self.method, 'bytes': raw, 'metadata': metadata,
                                   'thread': threading.current_thread().name,
                                   'thread_ident': threading.get_ident()})
        resp = self.channel.respond(self.method, raw)
        if isinstance(resp, BaseException):
            raise resp
        if isinstance(resp, (bytes, bytearray)) and self.deser:
            return self.deser(bytes(resp))
        return resp


class FakeChannel:
    def __init__(self, responder=None):
        self.calls = []
        self.responder = responder
        self.closed = False

    def unary_unary(self, method, request_serializer=None, response_deserializer=None, **kw):
        return FakeCallable(self, method, request_serializer, response_deserializer)

    def respond(self, method, raw):
        if self.responder is not None:
            return self.responder(method, raw)
        from deepproto.proto.poll.v1.poll_pb2 import PollResponse, ResponseType
        from deepproto.proto.tracepoint.v1.tracepoint_pb2 import SnapshotResponse
        if method.endswith('poll'):
            return PollResponse(ts_nanos=1, current_hash='', response=[], response_type=ResponseType.NO_CHANGE)
        return SnapshotResponse()

    def close(self):
        self.closed = True

    def of(self, suffix):
        return [c for c in self.calls if c['method'].endswith(suffix)]


def patch_grpc_start(deep_obj, channel):
    """Make Deep's GRPCService use the fake channel instead of opening a socket."""
    def start():
        deep_obj.grpc.channel = channel
    deep_obj.grpc.start = start


# --------------------------------------------------------------------------------------------
# world reset

_registered_sources = set()


def register_source(path, src):
    linecache.cache[path] = (len(src), None, src.splitlines(True), path)
    _registered_sources.add(path)


def thread_local_store():
    return ThreadLocal._ThreadLocal__store


def reset_world():
    sys.settrace(None)
    threading.settrace(None)
    thread_local_store().clear()
    for p in list(_registered_sources):
        linecache.cache.pop(p, None)
    _registered_sources.clear()
    LOGS.clear() if not __import__("os").environ.get("VF_KEEP_LOGS") else None
    reset_clock()


install_clock()
threading.excepthook = lambda args: None      # program threads may die on purpose; never print
sys.unraisablehook = lambda *a: None              # e.g. "generator ignored GeneratorExit" from host programs
