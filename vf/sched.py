"""Harness-owned schedules for the task handler: a simulated executor whose tasks complete only when the
generated schedule says so (on a real worker thread, so done-callbacks run where they really run), and a
dict whose every access from the flushing thread is a yield point."""
import concurrent.futures
import threading

from vf.core import HarnessError


class SimFuture(concurrent.futures.Future):
    pass


class _Finished:
    def done(self):
        return True

    def running(self):
        return False


_FINISHED = _Finished()


class SimPool:
    def __init__(self):
        self.tasks = []          # (future, fn, args)
        self.worker_names = []
        self.shutdown_called = False

    def submit(self, fn, *args, **kwargs):
        f = SimFuture()
        self.tasks.append((f, fn, args, kwargs))
        return f

    def pending(self):
        return [t for t in self.tasks if not t[0].done() and not t[0].running()]

    def complete(self, idx=0):
        """Run one pending task to completion on a fresh worker thread (and wait for it)."""
        pend = self.pending()
        if not pend:
            return False
        f, fn, args, kwargs = pend[idx % len(pend)]

        def work():
            if not f.set_running_or_notify_cancel():
                return
            try:
                r = fn(*args, **kwargs)
            except BaseException as e:      # noqa
                f.set_exception(e)
            else:
                f.set_result(r)
        t = threading.Thread(target=work, name='sim-worker-%d' % len(self.worker_names))
        self.worker_names.append(t.name)
        t.start()
        t.join(30)
        if t.is_alive():
            raise HarnessError('simulated worker did not finish')
        # like a real executor, the pool lets go of a finished task and its arguments (a delivered or failed snapshot is
        # garbage afterwards, and the next object of its size takes over its address)
        for i, t_ in enumerate(self.tasks):
            if t_[0] is f:
                self.tasks[i] = (_FINISHED, None, (), {})       # (a failed future would hold the traceback, and that the task)
        del fn, args, kwargs, pend, f
        return True

    def complete_all(self):
        n = 0
        while self.complete(0):
            n += 1
            if n > 1000:
                raise HarnessError('tasks keep spawning tasks')

    def drain(self):
        """Run every pending task, in submission order, on one fresh worker thread (for long backlogs)."""
        pend = self.pending()

        def work():
            for f, fn, args, kwargs in pend:
                if not f.set_running_or_notify_cancel():
                    continue
                try:
                    r = fn(*args, **kwargs)
                except BaseException as e:      # noqa
                    f.set_exception(e)
                else:
                    f.set_result(r)
        t = threading.Thread(target=work, name='sim-worker-%d' % len(self.worker_names))
        self.worker_names.append(t.name)
        t.start()
        t.join(120)
        if t.is_alive():
            raise HarnessError('simulated worker did not finish')
        n = len(pend)
        done = {id(p[0]) for p in pend}
        for i, t_ in enumerate(self.tasks):
            if id(t_[0]) in done:
                self.tasks[i] = (_FINISHED, None, (), {})
        del pend, t_
        return n

    def shutdown(self, wait=True, **kw):
        self.shutdown_called = True


class Turns:
    """Ping-pong between the harness thread and one controlled thread (the flusher)."""

    def __init__(self):
        self.at_yield = threading.Event()
        self.go = threading.Event()
        self.controlled = None
        self.active = False
        self.yields = 0

    def yield_point(self):
        if not self.active or threading.current_thread() is not self.controlled:
            return
        self.yields += 1
        self.go.clear()
        self.at_yield.set()
        if not self.go.wait(30):
            raise HarnessError('harness did not resume the controlled thread')

    def resume(self):
        self.at_yield.clear()
        self.go.set()


class SchedDict(dict):
    """dict whose accesses from the controlled thread are yield points."""

    def __init__(self, turns, *a, **k):
        super().__init__(*a, **k)
        self._turns = turns

    def _y(self):
        self._turns.yield_point()

    def __getitem__(self, k):
        self._y()
        return super().__getitem__(k)

    def get(self, k, default=None):
        self._y()
        return super().get(k, default)

    def __contains__(self, k):
        self._y()
        return super().__contains__(k)

    def __len__(self):
        self._y()
        return super().__len__()

    def __iter__(self):
        self._y()
        return iter(list(super().keys()))

    def keys(self):
        self._y()
        return list(super().keys())

    def values(self):
        self._y()
        return list(super().values())

    def items(self):
        self._y()
        return list(super().items())

    def copy(self):
        self._y()
        return dict(super().items())


def run_controlled(fn, turns, pool, schedule, poll_s=0.004, max_steps=400):
    """Run fn() on a controlled thread.  At every yield point, and whenever the thread is blocked (no yield and
    not finished within poll_s), the next schedule decision is applied: None = let it continue, int = complete
    that pending task first.  When blocked and nothing is scheduled, the first pending task completes (workers
    always finish eventually).  Returns (exception or None, finished?)."""
    result = {}

    def body():
        try:
            fn()
            result['exc'] = None
        except BaseException as e:      # noqa
            result['exc'] = e
    t = threading.Thread(target=body, name='flusher')
    turns.controlled = t
    turns.active = True
    sched = list(schedule)
    t.start()
    steps = 0
    completed_during = 0
    try:
        while True:
            steps += 1
            if steps > max_steps:
                raise HarnessError('controlled thread neither finishes nor blocks')
            if turns.at_yield.wait(poll_s):
                d = sched.pop(0) if sched else None
                if d is not None and pool.pending():
                    pool.complete(d)
                    completed_during += 1
                turns.resume()
                continue
            if not t.is_alive():
                break
            # blocked in a real wait: somebody has to finish a task
            t.join(poll_s)
            if not t.is_alive():
                break
            if turns.at_yield.is_set():
                continue
            if pool.pending():
                d = sched.pop(0) if sched else 0
                pool.complete(d if d is not None else 0)
                completed_during += 1
            else:
                t.join(12)
                if t.is_alive() and not turns.at_yield.is_set():
                    turns.active = False
                    return HarnessError('flush blocked with no pending task'), False, completed_during
    finally:
        turns.active = False
        turns.resume()
    t.join(5)
    return result.get('exc'), True, completed_during
