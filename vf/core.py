"""Runner shared by every property: seeds, tiers, replay, known findings, evidence, exit codes.

A property module defines a subclass of Prop:

    strategy(tier)      Hypothesis strategy producing a JSON-able *recipe*
    run_case(recipe)    builds the case from the recipe against the real code, evaluates the oracle
                        and returns an Outcome (classes, non-triviality, violations with signatures)
    enumerate(tier)     optional: an iterable of recipes enumerated completely (finite tables)

The runner does: replay tier -> (enumeration) -> Hypothesis search, collect-then-classify with
known-findings exclusion, shrinking, replay-file writing, evidence JSON.
"""
import glob
import hashlib
import json
import os
import subprocess
import sys
import time
import traceback
import warnings

# Generated host programs seed and use the global `random` generator on purpose (the agent must not disturb it).  A
# generator of such a program that is finalised later - while Hypothesis draws the next case - runs its `finally:` block
# then, and Hypothesis reports that as "random used inside a strategy".  It is not: no strategy of ours uses `random`.
warnings.filterwarnings('ignore', message='Do not use the `random` module inside strategies')

ROOT = os.path.dirname(os.path.dirname(os.path.abspath(__file__)))
REPO = os.environ.get('VERIF_REPO', '/repo')


class HarnessError(Exception):
    """Something is wrong with the harness or the run is inconclusive: exit 2, never a violation."""


class Violation:
    def __init__(self, signature, detail=None):
        self.signature = signature
        self.detail = detail

    def __repr__(self):
        return 'Violation(%r)' % (self.signature,)


class Outcome:
    """What one case showed."""

    def __init__(self):
        self.classes = set()
        self.nontrivial = False
        self.violations = []
        self.info = {}

    def cls(self, *names):
        for n in names:
            self.classes.add(n)

    def violate(self, signature, detail=None):
        self.violations.append(Violation(signature, detail))

    def check(self, cond, signature, detail=None):
        if not cond:
            self.violate(signature, detail)
        return cond


class Prop:
    id = 'C00'
    level = 'exploration'
    rule = ''
    assumptions = []
    quick_examples = 300
    thorough_examples = 2000      # per shard
    shards = 16
    max_rounds = 4                # how many distinct root causes one run will chase
    floors = {}                   # class -> minimal fraction of evaluations (checked at the end)
    fuzz_runs = 0                 # thorough tier: executions per coverage-guided (atheris) shard, 0 = not used
    fuzz_shards = 4

    def strategy(self, tier):
        raise NotImplementedError

    def run_case(self, recipe):
        raise NotImplementedError

    def enumerate(self, tier, shard=0, nshards=1):
        return None

    def sample_view(self, recipe):
        return recipe


# --------------------------------------------------------------------------------------------
# known findings

class Findings:
    def __init__(self, path=None):
        path = path or os.path.join(ROOT, 'known_findings.json')
        self.findings = []
        self.fixed = []
        if os.path.exists(path):
            with open(path) as f:
                data = json.load(f)
            self.findings = data.get('findings', [])
            self.fixed = data.get('fixed', [])
        self.hits = {}

    def match(self, prop_id, signature):
        for i, f in enumerate(self.findings):
            if f['property'] == prop_id and f['signature'] == signature:
                self.hits[i] = self.hits.get(i, 0) + 1
                return f
        return None

    def for_prop(self, prop_id):
        return [(i, f) for i, f in enumerate(self.findings) if f['property'] == prop_id]


# --------------------------------------------------------------------------------------------
# statistics / evidence

def canon(recipe):
    return json.dumps(recipe, sort_keys=True, default=repr, ensure_ascii=True)


def recipe_hash(recipe):
    return hashlib.sha1(canon(recipe).encode()).hexdigest()[:16]


class Stats:
    def __init__(self):
        self.evaluations = 0
        self.nontrivial_hashes = set()
        self.classes = {}
        self.samples = []
        self.known_finding_hits = {}
        self.replayed = 0
        self.enumerated = 0
        self.exhaustive = False

    def record(self, prop, recipe, outcome):
        self.evaluations += 1
        for c in outcome.classes:
            self.classes[c] = self.classes.get(c, 0) + 1
        if outcome.nontrivial:
            h = recipe_hash(recipe)
            if h not in self.nontrivial_hashes:
                self.nontrivial_hashes.add(h)
                if len(self.samples) < 4:
                    self.samples.append(_truncate(prop.sample_view(recipe)))

    def merge_dict(self, d):
        self.evaluations += d['evaluations']
        self.nontrivial_hashes.update(d['hashes'])
        for k, v in d['classes'].items():
            self.classes[k] = self.classes.get(k, 0) + v
        for s in d['samples']:
            if len(self.samples) < 5:
                self.samples.append(s)
        for k, v in d['known_finding_hits'].items():
            self.known_finding_hits[k] = self.known_finding_hits.get(k, 0) + v
        self.replayed += d.get('replayed', 0)
        self.enumerated += d.get('enumerated', 0)

    def as_dict(self):
        return {'evaluations': self.evaluations, 'hashes': sorted(self.nontrivial_hashes),
                'classes': self.classes, 'samples': self.samples,
                'known_finding_hits': self.known_finding_hits, 'replayed': self.replayed,
                'enumerated': self.enumerated}


def _truncate(obj, limit=1500):
    s = canon(obj)
    if len(s) <= limit:
        return json.loads(s)
    return {'truncated_json': s[:limit] + '...'}


# --------------------------------------------------------------------------------------------

def repo_head():
    try:
        return subprocess.run(['git', '-C', REPO, 'rev-parse', 'HEAD'], capture_output=True, text=True,
                              timeout=20).stdout.strip()
    except Exception:
        return 'unknown'


class Runner:
    def __init__(self, prop, tier, seed, examples=None, quiet=False):
        self.prop = prop
        self.tier = tier
        self.seed = seed
        self.examples = examples
        self.findings = Findings()
        self.stats = Stats()
        self.violations = []      # list of dict(signature, replay, detail)
        self.quiet = quiet
        self._seen_sigs = set()

    # -- classification ---------------------------------------------------------------------
    def _classify(self, outcome):
        """Split an outcome's violations into known and new ones."""
        new = []
        for v in outcome.violations:
            f = self.findings.match(self.prop.id, v.signature)
            if f is not None:
                self.stats.known_finding_hits[v.signature] = self.stats.known_finding_hits.get(v.signature, 0) + 1
            else:
                new.append(v)
        return new

    def _run_one(self, recipe):
        outcome = self.prop.run_case(recipe)
        self.stats.record(self.prop, recipe, outcome)
        return outcome, self._classify(outcome)

    def _save_violation(self, recipe, violation):
        d = os.path.join(ROOT, 'out', 'violations')
        os.makedirs(d, exist_ok=True)
        sig_h = hashlib.sha1(violation.signature.encode()).hexdigest()[:10]
        path = os.path.join(d, '%s-%s.json' % (self.prop.id, sig_h))
        with open(path, 'w') as f:
            json.dump({'property': self.prop.id, 'signature': violation.signature, 'seed': self.seed,
                       'tier': self.tier, 'recipe': json.loads(canon(recipe)),
                       'detail': json.loads(canon(violation.detail)), 'repo_head': repo_head()}, f, indent=1)
        return os.path.relpath(path, ROOT)

    def _report(self, recipe, violation):
        if violation.signature in self._seen_sigs:
            return
        self._seen_sigs.add(violation.signature)
        path = self._save_violation(recipe, violation)
        self.violations.append({'signature': violation.signature, 'replay': path})
        print('VIOLATION property=%s replay=%s' % (self.prop.id, path))
        print('  signature: %s' % violation.signature)
        if violation.detail is not None:
            print('  detail: %s' % canon(violation.detail)[:600])
        sys.stdout.flush()

    # -- phases -----------------------------------------------------------------------------
    def replay_files(self, files):
        for path in files:
            with open(path) as f:
                data = json.load(f)
            recipe = data['recipe'] if isinstance(data, dict) and 'recipe' in data else data
            outcome, new = self._run_one(recipe)
            self.stats.replayed += 1
            for v in new:
                self._report(recipe, v)

    def replay_tier(self):
        files = sorted(glob.glob(os.path.join(ROOT, 'replays', self.prop.id, '*.json')))
        self.replay_files(files)

    def enumeration(self, shard=0, nshards=1):
        it = self.prop.enumerate(self.tier, shard, nshards)
        if it is None:
            return
        for recipe in it:
            outcome, new = self._run_one(recipe)
            self.stats.enumerated += 1
            for v in new:
                self._report(recipe, v)
        self.stats.exhaustive = getattr(self.prop, 'exhaustive_' + self.tier, False)

    def search(self, n_examples, seed):
        import hypothesis
        from hypothesis import given, settings, HealthCheck, Phase

        runner = self
        excluded = set()

        class Found(Exception):
            pass

        state = {}

        def body(recipe):
            outcome, new = runner._run_one(recipe)
            new = [v for v in new if v.signature not in excluded]
            if new:
                target = state.get('target')
                # while shrinking keep to the same root cause so the minimal example is of that cause
                same = [v for v in new if v.signature == target] if target else []
                v = same[0] if same else new[0]
                if target is None:
                    state['target'] = v.signature
                if target is None or same:
                    state['last'] = (recipe, v)
                    raise Found(v.signature)

        rounds = 0
        per_round = n_examples
        while rounds < self.prop.max_rounds:
            rounds += 1
            state.clear()
            test = given(self.prop.strategy(self.tier))(body)
            test = settings(max_examples=per_round, database=None, deadline=None, derandomize=False,
                            report_multiple_bugs=False,
                            phases=[Phase.generate, Phase.shrink],
                            suppress_health_check=list(HealthCheck))(test)
            test = hypothesis.seed(seed + rounds - 1)(test)
            try:
                test()
                break
            except Found:
                recipe, v = state['last']
                self._report(recipe, v)
                excluded.add(v.signature)
                per_round = max(50, n_examples // 2)
            except hypothesis.errors.Flaky as e:
                # same recipe, different result.  If the recorded failing recipe fails again when it is simply re-run,
                # the violation is real (the changed code is non-deterministic); otherwise it is a harness problem.
                last = state.get('last')
                again = False
                if last is not None:
                    for _ in range(25):
                        o = self.prop.run_case(last[0])
                        if any(v.signature == last[1].signature for v in o.violations):
                            again = True
                            break
                if not again:
                    raise HarnessError('flaky case: %s' % str(e)[:300])
                self._report(last[0], last[1])
                excluded.add(last[1].signature)
                per_round = max(50, n_examples // 2)

    # -- whole run ----------------------------------------------------------------------------
    def run_single(self, n_examples=None, do_replays=True, do_enum=True, shard=0, nshards=1):
        if do_replays:
            self.replay_tier()
        if do_enum:
            self.enumeration(shard, nshards)
        if n_examples is None:
            n_examples = self.examples or (self.prop.quick_examples if self.tier == 'quick'
                                           else self.prop.thorough_examples)
        if n_examples > 0:
            self.search(n_examples, self.seed)


def write_evidence(prop, tier, seed, stats, violations, wall, findings, extra_assumptions=()):
    classes = dict(sorted(stats.classes.items()))
    cov = {
        'evaluations': stats.evaluations,
        'distinct_nontrivial': len(stats.nontrivial_hashes),
        'rule': prop.rule,
        'samples': stats.samples if stats.samples else ['<no non-trivial case was generated>'],
        'classes': classes,
        'class_fractions': {k: round(v / max(1, stats.evaluations), 4) for k, v in classes.items()},
        'replayed_saved_inputs': stats.replayed,
        'enumerated_rows': stats.enumerated,
        'known_finding_hits': stats.known_finding_hits,
        'repo_head': repo_head(),
    }
    if stats.exhaustive:
        cov['exhaustive'] = True
    if getattr(stats, 'fuzz_executions', 0):
        cov['coverage_guided_executions'] = stats.fuzz_executions
    ev = {
        'property_id': prop.id, 'tier': tier, 'seed': seed, 'level': prop.level,
        'coverage': cov,
        'assumptions': list(prop.assumptions) + list(extra_assumptions),
        'wall_s': round(wall, 2),
        'violations': len(violations),
    }
    evdir = os.environ.get('VERIF_EVIDENCE_DIR') or os.path.join(ROOT, 'evidence')
    os.makedirs(evdir, exist_ok=True)
    path = os.path.join(evdir, '%s.json' % prop.id)
    with open(path, 'w') as f:
        json.dump(ev, f, indent=1, default=repr)
    return ev


def main_run(prop, tier, seed, examples=None, shard=None, out=None, jobs=None, replay=None):
    """Entry used by cli. Returns exit code."""
    t0 = time.time()
    if replay:
        r = Runner(prop, tier, seed)
        r.replay_files([replay])
        for i, f in r.findings.for_prop(prop.id):
            if r.stats.known_finding_hits.get(f['signature']):
                print('KNOWN-FINDING: property=%s %s' % (prop.id, f['what']))
        print('replayed %s: %d violation(s)' % (replay, len(r.violations)))
        return 1 if r.violations else 0

    if shard is not None:           # worker of a thorough run
        r = Runner(prop, tier, seed, examples=examples, quiet=True)
        r.run_single(do_replays=False, do_enum=True, shard=shard, nshards=jobs or prop.shards)
        with open(out, 'w') as f:
            json.dump({'stats': r.stats.as_dict(), 'violations': r.violations, 'exhaustive': r.stats.exhaustive}, f)
        return 1 if r.violations else 0

    r = Runner(prop, tier, seed, examples=examples)
    if tier == 'quick' or (jobs or prop.shards) <= 1:
        r.run_single()
        stats, violations = r.stats, r.violations
    else:
        # thorough: replay + enumeration here, search split over shards in sub-processes
        r.replay_tier()
        stats, violations = r.stats, list(r.violations)
        n = jobs or prop.shards
        procs = []
        all_exhaustive = True
        tmpd = os.path.join(ROOT, 'out', 'shards')
        os.makedirs(tmpd, exist_ok=True)
        for i in range(n):
            o = os.path.join(tmpd, '%s-%d-%d.json' % (prop.id, os.getpid(), i))
            cmd = [sys.executable, '-B', '-m', 'vf.cli', prop.id, '--tier', 'thorough', '--shard', str(i),
                   '--out', o, '--jobs', str(n)]
            if examples:
                cmd += ['--examples', str(examples)]
            env = dict(os.environ, VERIF_SEED=str(seed * 1000 + i + 1))
            procs.append((o, subprocess.Popen(cmd, cwd=ROOT, env=env, stdout=subprocess.PIPE,
                                              stderr=subprocess.PIPE, text=True)))
        for o, p in procs:
            so, se = p.communicate()
            if p.returncode not in (0, 1) or not os.path.exists(o):
                sys.stderr.write(se[-3000:])
                raise HarnessError('shard failed rc=%s' % p.returncode)
            with open(o) as f:
                d = json.load(f)
            os.unlink(o)
            stats.merge_dict(d['stats'])
            all_exhaustive = all_exhaustive and bool(d.get('exhaustive'))
            seen = {v['signature'] for v in violations}
            for v in d['violations']:
                if v['signature'] not in seen:
                    seen.add(v['signature'])
                    violations.append(v)
                    print('VIOLATION property=%s replay=%s' % (prop.id, v['replay']))
                    print('  signature: %s' % v['signature'])
    fuzz_exec = 0
    if tier != 'quick' and (jobs or prop.shards) > 1 and prop.fuzz_runs and shard is None:
        # coverage-guided amplification (atheris / libFuzzer over the same strategy and oracle)
        fprocs = []
        tmpd = os.path.join(ROOT, 'out', 'shards')
        for i in range(prop.fuzz_shards):
            o = os.path.join(tmpd, '%s-fuzz-%d-%d.json' % (prop.id, os.getpid(), i))
            cmd = [sys.executable, '-B', '-m', 'vf.fuzz', prop.id, '--runs', str(prop.fuzz_runs), '--seed',
                   str(seed * 100 + i + 1), '--out', o]
            fprocs.append((o, subprocess.Popen(cmd, cwd=ROOT, env=dict(os.environ), stdout=subprocess.DEVNULL,
                                               stderr=subprocess.DEVNULL)))
        for o, p in fprocs:
            p.wait()
            if not os.path.exists(o):
                print('NOTE fuzz shard produced no result (rc=%s)' % p.returncode)
                continue
            with open(o) as f:
                d = json.load(f)
            os.unlink(o)
            if d.get('error'):
                print('NOTE coverage-guided tier skipped: %s' % d['error'])
                continue
            stats.merge_dict(d['stats'])
            fuzz_exec += d.get('fuzz_executions', 0)
            seen = {v['signature'] for v in violations}
            for v in d['violations']:
                if v['signature'].startswith('HARNESS:'):
                    print('NOTE fuzz harness exception: %s' % v['signature'])
                    continue
                if v['signature'] not in seen:
                    seen.add(v['signature'])
                    violations.append(v)
                    print('VIOLATION property=%s replay=%s' % (prop.id, v['replay']))
                    print('  signature: %s' % v['signature'])
    stats.fuzz_executions = fuzz_exec
    if tier != 'quick' and (jobs or prop.shards) > 1:
        stats.exhaustive = all_exhaustive and stats.enumerated > 0
    wall = time.time() - t0
    # floors: a vacuous run must not look green; it is a harness error, never a violation
    floor_fail = []
    if not violations:
        for c, frac in prop.floors.items():
            got = stats.classes.get(c, 0) / max(1, stats.evaluations - stats.enumerated)   # of the searched cases
            # a small finite class saturates in long runs (Hypothesis does not repeat examples): an absolute count is enough
            # the declared floor is the nominal share; a run fails only below 60 % of it (seed-to-seed variation must
            # never turn into an alarm), or below an absolute count for classes that saturate
            if got < 0.6 * frac and stats.classes.get(c, 0) < 300:
                floor_fail.append('%s: %.3f < %.3f' % (c, got, frac))
    ev = write_evidence(prop, tier, seed, stats, violations, wall, r.findings)
    for i, f in r.findings.for_prop(prop.id):
        print('KNOWN-FINDING: property=%s %s (hits this run: %d)' % (
            prop.id, f['what'], stats.known_finding_hits.get(f['signature'], 0)))
    print('%s %s seed=%d: evaluations=%d distinct_nontrivial=%d violations=%d wall=%.1fs' % (
        prop.id, tier, seed, stats.evaluations, len(stats.nontrivial_hashes), len(violations), wall))
    if violations:
        return 1
    if floor_fail:
        print('HARNESS-ERROR generator floors missed: %s' % '; '.join(floor_fail))
        return 2
    if len(stats.nontrivial_hashes) < 2:
        print('HARNESS-ERROR fewer than 2 non-trivial cases')
        return 2
    return 0


def guarded_main(fn):
    try:
        return fn()
    except HarnessError as e:
        print('HARNESS-ERROR %s' % e)
        return 2
    except Exception:
        traceback.print_exc()
        print('HARNESS-ERROR unexpected exception in harness')
        return 2


def fd(mapping):
    """Like st.fixed_dictionaries, without its internal shuffle: Hypothesis' BytestringProvider (the fuzz_one_input
    bridge used by the atheris tier) cannot draw the bounded integers that shuffle needs, so every buffer is rejected."""
    from hypothesis import strategies as st
    keys = list(mapping.keys())
    return st.tuples(*[mapping[k] for k in keys]).map(lambda t: dict(zip(keys, t)))
