"""C01 - host transparency: the agent never changes what the host program does.

Differential: the same generated program (holding generated friendly and hostile values) is run without
the agent and with the real handler installed through threading.settrace - with generated tracepoints of all
kinds (well-formed or not, raising expressions incl. BaseException), plugins whose callbacks raise, and
faults injected at the k-th call of any function of the agent that the dry run reached.  Required: same
observation, no exception from agent code in the program, and the thread's trace function still in place.
"""
import sys
import threading

from hypothesis import strategies as st

from vf import lab, progs, values, faults
from vf.core import Prop, Outcome, fd
from vf.props.C03 import resolve_tps

from deep.api.tracepoint.trigger import build_trigger, Trigger, FunctionLocation, LineLocation, LocationAction, \
    Location
from deep.api.tracepoint.tracepoint_config import MetricDefinition, LabelExpression
from deep.api.tracepoint.constants import STAGE, METHOD_CAPTURE, LINE_CAPTURE

INJ = faults.INJECTOR
ITERATING_KINDS = {'gen', 'map', 'zip', 'range_iter', 'set_iter', 'list_iter', 'list_reviter', 'mailbox', 'dict_keys'}
INJ.install()

EXPRS = ['n', 'n + 1', 'a', 'h1', 'str(h1)', 'len(h2)', 'undefined_name', '1/0', 'n +', 'h1.nope', 'raise_base()',
         'G_INT', 'g_helper(n)', 'self', 'h2[0]', "{'k': n}", 'err', 'ERRS[-1]', 'ERRS[0]', 'ERRS[0]', 'z1', '[z1]']
CONDS = [None, None, 'True', 'n >= 0', 'n > 100', '1/0', 'raise_base()', 'undefined', 'h1']
ALL_KINDS = (values.SCALAR_KINDS + values.CONTAINER_KINDS + values.NODICT_KINDS + values.HOSTILE_KINDS +
             ['mailbox', 'gen', 'map', 'zip', 'list_iter', 'mailbox', 'lru', 'slots_hook'] * 4)


class PluginBase(BaseException):
    pass


class C01(Prop):
    id = 'C01'
    level = 'fault_enumeration'
    rule = ('generated program (calls, recursion, try/raise incl. BaseException, generators, iterators, methods, '
            'threads; locals holding friendly and hostile values) x 1-5 tracepoints (snapshot/log/metric/span, capture '
            'stages, conditions / watches / log fields / metric expressions in scope, out of scope, invalid, raising '
            'BaseException; nameless method tracepoints with and without source) x recording plugins raising in any '
            'callback x internal fault points (function, k-th call) drawn from the dry-run inventory; non-trivial = a '
            'tracepoint location was reached and (an agent-side error was logged or a fault fired or a hostile value '
            'was in scope); distinct = distinct recipe')
    assumptions = ['programs never observe tracing themselves; observation = result / exception / LOG / thread results',
                   'internal faults are Exception subclasses; BaseException only from host dunders, expressions, plugins',
                   'fault points cover the functions of %d anchored modules reached in the dry run; the handler entry '
                   'itself is excluded (a fault must be inside it to be containable)' % len(faults.MODULES),
                   'near-recursion-limit programs are not generated',
                   'placeholder threads and finaliser timing are compared in the runs without an injected fault only (an '
                   'injected fault replaces a whole agent function, also the one that releases the paused frame)',
                   'finalisers: a function binds at most one finalisable local, once, and the claim is that it is '
                   'finalised when the invocation ends, as without the agent; when a value that is rebound inside an '
                   'invocation dies, and the order in which two locals die at frame exit, cannot be preserved by any '
                   'trace function that reads frame.f_locals (CPython <= 3.12 keeps that snapshot dict on the frame)']
    quick_examples = 500
    thorough_examples = 1500
    floors = {'tp_reached': 0.5, 'fault_fired': 0.25, 'hostile_in_scope': 0.15, 'plugin_fault': 0.1,
              'plugin_fault_fired': 0.05, 'kept_exception_watched': 0.03}

    def strategy(self, tier):
        where_line = st.tuples(st.just('stmt'), st.integers(0, 60)).map(list)
        where_fn = st.tuples(st.just('func'), st.integers(0, 5)).map(list)
        expr = st.sampled_from(EXPRS)
        tp = st.one_of(
            fd({'kind': st.just('line'), 'where': where_line,
                                   'action': st.sampled_from(['snapshot', 'log', 'metric', 'span', 'snapshot+log',
                                                              'capture']),
                                   'cond': st.sampled_from(CONDS), 'exprs': st.lists(expr, max_size=3),
                                   'frame_type': st.sampled_from(['single_frame', 'all_frame'])}),
            fd({'kind': st.just('method'), 'where': where_fn,
                                   'action': st.sampled_from(['snapshot', 'span', 'capture', 'log', 'noname']),
                                   'cond': st.sampled_from(CONDS), 'exprs': st.lists(expr, max_size=2),
                                   'frame_type': st.sampled_from(['single_frame', 'all_frame'])}))
        plugin_fault = st.one_of(st.none(), st.tuples(
            st.sampled_from(['close', 'log_tracepoint', 'close', 'decorate', 'create_span', 'counter']),
            st.sampled_from(['E', 'B', 'B']), st.sampled_from(['all', 'all', 'first', 'second'])).map(list))
        plugin_fault = st.one_of(plugin_fault, plugin_fault.filter(lambda x: x is not None))
        fault = st.tuples(st.integers(0, 400), st.sampled_from(['first', 'last', 'mid', 'second'])).map(list)
        def align(r):
            # a plugin fault is only reachable if a tracepoint of the matching kind exists: force one
            pf = r['plugin_fault']
            if pf and r['tps']:
                want = {'log_tracepoint': 'log', 'decorate': 'snapshot', 'create_span': 'span', 'close': 'span',
                        'counter': 'metric'}[pf[0]]
                r = dict(r, tps=[dict(r['tps'][0], action=want, cond=None, kind='line', where=['stmt', 0])] + r['tps'][1:])
            return r
        # two application threads at one tracepoint, one of them holding an application lock that a collected value's
        # __str__ also takes: an agent that holds a lock of its own while it runs application code turns that into a
        # deadlock the application does not have by itself
        host_lock = fd({'mode': st.just('host_lock'), 'action': st.sampled_from(['snapshot', 'log', 'snapshot+log']),
                        'fire_count': st.sampled_from(['-1', '2', '5'])})
        general = fd({
            'prog': progs.program_recipes(n_values=5, hold_bias=2),
            'values': values.value_recipes(ALL_KINDS, min_nodes=5, max_nodes=8, max_items=3),
            'tps': st.lists(tp, min_size=1, max_size=5),
            'plugin_fault': plugin_fault,
            'faults': st.lists(st.lists(fault, min_size=1, max_size=2), min_size=1, max_size=2),
            'src': st.booleans(),
            # thorough: for some programs *every* fault point the dry run reached is tried (first and last call)
            'all_faults': st.integers(0, 49).map(lambda x: x == 0 and tier != 'quick'),
        }).map(align)
        # the configuration dict handed to deep.start() is an object of the application: its final content is part of the
        # program's final data
        start_config = fd({'mode': st.just('start_config'),
                           'keys': st.lists(st.sampled_from(['SERVICE_URL', 'APP_ROOT', 'POLL_TIMER', 'IN_APP_INCLUDE',
                                                             'MY_OWN_KEY']), max_size=3, unique=True)})
        return st.one_of(*([general] * 30 + [host_lock, start_config]))

    # -------------------------------------------------------------------------------------------------
    def build_triggers(self, recipe, rendered):
        tps = resolve_tps({'prog': recipe['prog'], 'tps': [dict(t, action='snapshot') for t in recipe['tps']]},
                          rendered)
        triggers = []
        for t, spec in zip(tps, recipe['tps']):
            args = {'fire_count': '-1', 'fire_period': '0', 'frame_type': spec['frame_type']}
            if spec['cond'] is not None:
                args['condition'] = spec['cond']
            a = spec['action']
            exprs = spec['exprs']
            metrics = []
            if a in ('log', 'snapshot+log'):
                args['log_msg'] = 'L ' + ' '.join('{%s}' % e for e in exprs if '{' not in e and '}' not in e)
                if a == 'log':
                    args['snapshot'] = 'no_collect'
            if a == 'metric':
                args['snapshot'] = 'no_collect'
                metrics = [MetricDefinition('m', 'counter', [LabelExpression('l', None, e) for e in exprs[:1]],
                                            exprs[0] if exprs else None)]
            if a == 'span':
                args['snapshot'] = 'no_collect'
                args['span'] = 'line' if t['kind'] == 'line' else 'method'
            if t['kind'] == 'method' and a != 'noname':
                args['method_name'] = t['name']
            if a == 'noname':
                args['stage'] = 'method_start'
            if a == 'capture' and (len(exprs) + (t.get('line') or 0)) % 2 == 0:
                # every other capture tracepoint is configured the way the service does it: the stage is an argument
                stage = LINE_CAPTURE if t['kind'] == 'line' else METHOD_CAPTURE
                trig = build_trigger(t['id'], t['path'], t['line'], dict(args, **{STAGE: stage}), list(exprs), [])
                if trig is not None:
                    triggers.append(trig)
                continue
            if a == 'capture':
                stage = LINE_CAPTURE if t['kind'] == 'line' else METHOD_CAPTURE
                cfg = dict(args, **{STAGE: stage, 'watches': list(exprs)})
                act = LocationAction(t['id'], spec['cond'], cfg, LocationAction.ActionType.Snapshot)
                loc = LineLocation(t['path'], t['line'], Location.Position.CAPTURE) if t['kind'] == 'line' else \
                    FunctionLocation(t['path'], t['name'], Location.Position.CAPTURE)
                triggers.append(Trigger(loc, [act]))
                continue
            trig = build_trigger(t['id'], t['path'], t['line'], args, list(exprs) if a.startswith('snapshot') else [],
                                 metrics)
            if trig is not None:
                triggers.append(trig)
        return triggers, tps

    def plugins(self, recipe):
        pf = recipe['plugin_fault']
        spec = {}
        if pf:
            cb, code, when = pf
            exc = PluginBase if code == 'B' else RuntimeError
            spec = {cb: ('all' if when == 'all' else {1} if when == 'first' else {2}, exc)}
        return [lab.RecLogger(faults={k: v for k, v in spec.items() if k == 'log_tracepoint'}),
                lab.RecDecorator(faults={k: v for k, v in spec.items() if k == 'decorate'}),
                lab.RecSpanProcessor(faults={k: v for k, v in spec.items() if k in ('create_span', 'close')}),
                lab.RecMetricProcessor(faults={k: v for k, v in spec.items() if k == 'counter'})]

    def one_run(self, recipe, rendered, with_agent, plan=None, dry=False):
        lab.reset_world()
        vals = values.build(recipe['values'])
        while len(vals) < 5:
            vals.append(len(vals))
        extra = {}
        handler = None
        plugs = []
        push = lab.RecPush()
        if with_agent:
            triggers, tps = self.build_triggers(recipe, rendered)
            plugs = self.plugins(recipe)
            handler, cfg, _ = lab.make_handler(triggers, plugins=plugs, push=push)
        tracer = handler.trace_call if handler is not None else None
        # the injector is armed only while the traced program runs
        if with_agent and (plan is not None or dry):
            def tracer_armed(frame, event, arg):
                return handler.trace_call(frame, event, arg)
            if dry:
                INJ.dry()
            else:
                INJ.arm(plan)
        try:
            res = run_with_globals(recipe['prog'], rendered, tracer, vals, recipe['src'])
        finally:
            INJ.disarm()
        # what is left in every iterator / draining collection the program held is part of its final data
        rest = []
        for nd, v in zip(recipe['values']['nodes'], vals):
            if nd['k'] in ITERATING_KINDS:
                try:
                    rest.append([nd['k'], progs.canon_obs(list(v))])
                except BaseException as e:      # noqa
                    rest.append([nd['k'], type(e).__name__])
            if nd['k'] == 'lru':
                rest.append(['lru', list(v.used)])
            if nd['k'] == 'slots_hook':
                rest.append(['slots_hook', list(v.asked)])
        res.log.append(['final-iterators', rest])
        return res, handler, plugs, push


def raise_base():
    raise progs.CustomBase('from expression')


def run_with_globals(prog, rendered, tracer, vals, register_sources):
    # raise_base is a host-module helper the expressions can call
    import builtins
    builtins.raise_base = raise_base
    try:
        return progs.run_program(prog, rendered, tracer=tracer, values=vals, register_sources=register_sources)
    finally:
        del builtins.raise_base


HOST_LOCK_SRC = '''def work(v, hold):
    if hold:
        L.acquire()
    x = 1
    if hold:
        L.release()
    return x
'''


def case_host_lock(self, recipe):
    out = Outcome()
    out.cls('host_lock_held_at_tracepoint')
    out.nontrivial = True
    lab.reset_world()
    path = '/app/pkg/locks.py'
    lab.register_source(path, HOST_LOCK_SRC)
    host_lock, b_inside, a_finished = threading.Lock(), threading.Event(), threading.Event()
    state = {}

    class Guarded:
        armed = True

        def __str__(self):
            if Guarded.armed:
                Guarded.armed = False
                b_inside.set()
                # the other thread takes the lock, passes the tracepoint and releases it: wait for that - or, if it is
                # stuck at the tracepoint, give up waiting; the waits only decide when we try the lock, not the verdict
                a_finished.wait(1.5)
                if not host_lock.acquire(timeout=6):
                    state['deadlock'] = True
                    return 'guarded'
                host_lock.release()
            return 'guarded'

    args = {'fire_count': recipe['fire_count'], 'fire_period': '0'}
    if 'log' in recipe['action']:
        args['log_msg'] = 'v={v}'
        if recipe['action'] == 'log':
            args['snapshot'] = 'no_collect'
    trig = build_trigger('tp-lock', 'locks.py', 4, args, ['v'] if 'snapshot' in recipe['action'] else [], [])
    handler, cfg, push = lab.make_handler([trig], plugins=[lab.RecLogger()])
    ns = {'L': host_lock, '__name__': 'locks'}
    exec(compile(HOST_LOCK_SRC, path, 'exec'), ns)
    results = {}

    def run(name, v, hold):
        sys.settrace(handler.trace_call)
        try:
            results[name] = ns['work'](v, hold)
        except BaseException as e:      # noqa
            results[name] = 'raised %s' % type(e).__name__
        finally:
            sys.settrace(None)
            if name == 'A':
                a_finished.set()
    tb = threading.Thread(target=run, args=('B', Guarded(), False), name='host-B', daemon=True)
    ta = threading.Thread(target=run, args=('A', 'plain', True), name='host-A', daemon=True)
    tb.start()
    if not b_inside.wait(10):
        tb.join(10)
        lab.reset_world()
        return out          # the value was never rendered (nothing to interleave with)
    ta.start()
    ta.join(20)
    tb.join(20)
    if state.get('deadlock') or ta.is_alive() or tb.is_alive():
        out.violate('host program hangs: two application threads deadlock at a tracepoint (the agent holds a lock of its '
                    'own while it runs application code)', {'action': recipe['action']})
    elif results != {'A': 1, 'B': 1}:
        out.violate('host_lock: program result differs from the agent-free run', {'results': results})
    lab.reset_world()
    return out


def case_start_config(self, recipe):
    from vf.props.C19 import PROP as C19P
    out = Outcome()
    out.cls('start_with_application_config_dict')
    out.nontrivial = True
    values = {'SERVICE_URL': 'localhost:1', 'APP_ROOT': '/app', 'POLL_TIMER': 1000, 'IN_APP_INCLUDE': '/app/pkg',
              'MY_OWN_KEY': ['the', 'application', 'keeps', 'this']}
    cfg = {'SERVICE_SECURE': 'False', 'POLL_TIMER': 1000}
    cfg.update({k: values[k] for k in recipe['keys']})
    obs = C19P.observe(cfg, {})
    if 'start' in obs:
        out.violate('start_config: deep.start %s' % obs['start'])
    elif obs.get('caller_dict_changed'):
        out.violate('deep.start changed the configuration dict the application passed in',
                    {'changed': obs['caller_dict_changed']})
    lab.reset_world()
    return out


def run_case(self, recipe):
    if recipe.get('mode') == 'host_lock':
        return case_host_lock(self, recipe)
    if recipe.get('mode') == 'start_config':
        return case_start_config(self, recipe)
    out = Outcome()
    rendered = progs.render(recipe['prog'])
    base, _, _, _ = self.one_run(recipe, rendered, with_agent=False)
    obs0 = base.observation()
    nodes = recipe['values']['nodes']
    if any(n['k'] in values.HOSTILE_KINDS for n in nodes) and \
            any(s[0] == 'hold' for f in recipe['prog']['funcs'] for s in _flat(f['body'])):
        out.cls('hostile_in_scope')
    if recipe['plugin_fault']:
        out.cls('plugin_fault')
    kept = [x for x in base.log if x and x[0] == 'kept-exceptions']
    if kept and kept[0][1] and any(e in ('err', 'ERRS[-1]', 'ERRS[0]') for t in recipe['tps'] for e in t['exprs']
                                   if t['action'] in ('snapshot', 'snapshot+log', 'log', 'capture')):
        out.cls('kept_exception_watched')

    def judge(res, handler, label, fired):
        obs = res.observation()
        if fired:
            # an internal failure is logged; the logging module asks for threading.current_thread(), which - on the last
            # events of a thread that threading has already forgotten - creates a placeholder thread object.  That is
            # the standard library's doing at the moment of an (injected) internal error, not something the statement
            # holds the agent to: placeholder threads are compared in the runs without an injected fault only.
            # Likewise the moment a finalisable local dies: an injected fault replaces a whole function of the agent
            # (also the one whose last statement lets go of the paused frame), which no real error site does.
            skip = ('placeholder-threads-left', 'finalised')
            obs = dict(obs, log=[x for x in obs['log'] if not (x and x[0] in skip)])
            ref = dict(obs0, log=[x for x in obs0['log'] if not (x and x[0] in skip)])
        else:
            ref = obs0
        if res.deadlock:
            out.violate('%s: host program hangs (%s)' % (label, res.deadlock), {'fired': fired})
            return False
        if res.agent_leak:
            out.violate('%s: exception from agent code reached the program: %s' % (label, res.agent_leak))
            return False
        if obs != ref:
            what = 'result' if obs['result'] != ref['result'] else 'exception' if obs['exc'] != ref['exc'] else \
                'output' if obs['log'] != ref['log'] else 'thread results'
            leak = obs['exc'][0] if obs['exc'] and obs['exc'] != ref['exc'] else ''
            out.violate('%s: program %s differs from the agent-free run %s' % (label, what, leak),
                        {'base': _short(ref), 'with_agent': _short(obs), 'fired': fired,
                         'first_difference': _first_diff(ref, obs)})
            return False
        for th, tr in res.trace_after.items():
            if tr != handler.trace_call:
                out.violate('%s: tracing was switched off for a thread' % label, {'thread': th, 'fired': fired,
                                                                                 'errors': sorted(set(lab.LOGS.errors()))[:4]})
                return False
        return True

    # ---- run with the agent, dry (counts calls) -------------------------------------------------------
    res, handler, plugs, push = self.one_run(recipe, rendered, with_agent=True, dry=True)
    counts = dict(INJ.counts)
    reached = bool(push.snapshots or plugs[0].calls or plugs[2].spans or plugs[3].calls or
                   any(k.startswith('deep.processor.context.trigger_context:TriggerContext.action_context')
                       for k in counts))
    errors_logged = bool(lab.LOGS.errors())
    plugin_fired = any(p.fired for p in plugs)
    if plugin_fired:
        out.cls('plugin_fault_fired')
    if reached:
        out.cls('tp_reached')
    ok = judge(res, handler, 'no injected fault', [])
    # ---- runs with injected internal faults ---------------------------------------------------------------
    fired_any = False
    if ok and counts:
        names = sorted(counts)
        plans = []
        for fl in recipe['faults']:
            plan = {}
            for idx, which in fl:
                name = names[idx % len(names)]
                c = counts[name]
                k = {'first': 1, 'last': c, 'mid': (c + 1) // 2, 'second': min(2, c)}[which]
                plan[(name, k)] = True
            plans.append(plan)
        if recipe.get('all_faults'):
            out.cls('full_fault_inventory')
            plans = [{(nm, 1): True} for nm in names] + [{(nm, counts[nm]): True} for nm in names if counts[nm] > 1]
        for plan in plans:
            res2, handler2, plugs2, push2 = self.one_run(recipe, rendered, with_agent=True, plan=plan)
            fired = list(INJ.fired)
            if fired:
                fired_any = True
            label = 'injected fault inside the handler' if fired else 'armed, nothing fired'
            if not judge(res2, handler2, label, fired):
                break
    if fired_any:
        out.cls('fault_fired')
    out.nontrivial = reached and (errors_logged or fired_any or plugin_fired or 'hostile_in_scope' in out.classes)
    lab.reset_world()
    return out


def _flat(body):
    for s in body:
        yield s
        for part in s[1:]:
            if isinstance(part, list) and part and isinstance(part[0], list):
                for x in _flat(part):
                    yield x


def _first_diff(a, b):
    for k in ('result', 'exc', 'threads'):
        if a[k] != b[k]:
            return [k, repr(a[k])[:150], repr(b[k])[:150]]
    for i, (x, y) in enumerate(zip(a['log'], b['log'])):
        if x != y:
            return ['log[%d]' % i, repr(x)[:150], repr(y)[:150]]
    return ['log length', len(a['log']), len(b['log'])]


def _short(obs):
    s = repr(obs)
    return s[:300]


C01.run_case = run_case
PROP = C01()
