"""C19 - configuration resolves with documented precedence and works from the environment.

(a) resolve: key x code source {value, callable, None, absent} x DEEP_<KEY> {set, unset} - complete table over the
    documented keys plus unknown keys, against a reference resolver written from the statement;
(b) parity: every documented setting given in code vs as its DEEP_ environment variable (text), compared where the
    setting acts - channel kind and target, auth metadata, logging config file, poll timer (interval, alive,
    ticking arithmetic), classification of probe paths - through the public deep.start() entry;
(c) classify: generated paths against generated include / exclude / app-root combinations in all three ways a
    prefix list can be supplied (list in code, comma string in code, comma string in the environment).
"""
import importlib
import itertools
import logging.config
import os
import sys
import threading

import grpc
from hypothesis import strategies as st

from vf import lab, oracle
from vf.core import Prop, Outcome, fd

import deep
import deep.config
import deep.logging
from deep.config import ConfigService
from deep.config.tracepoint_config import TracepointConfigService

ENV_BACKED = {'LOGGING_CONF': None, 'POLL_TIMER': 10, 'SERVICE_URL': 'deep:43315', 'SERVICE_SECURE': 'True',
              'SERVICE_AUTH_PROVIDER': None}
DOC_KEYS = ['SERVICE_URL', 'SERVICE_SECURE', 'LOGGING_CONF', 'POLL_TIMER', 'SERVICE_AUTH_PROVIDER', 'IN_APP_INCLUDE',
            'IN_APP_EXCLUDE', 'APP_ROOT', 'SERVICE_USERNAME', 'SERVICE_PASSWORD']
UNKNOWN_KEYS = ['CUSTOM_FLAG', 'MY_SETTING', 'SERVICE_USERNAME', 'SERVICE_PASSWORD', 'FEATURE_X']
ALL_DEEP_ENV = ['DEEP_' + k for k in set(DOC_KEYS + UNKNOWN_KEYS)] + ['DEEP_APP_ROOT']
PREFIXES = ['/app', '/app/pkg', '/app/pkg/sub', '/app/vendor', '/opt/lib', '/app/pk', '/usr/lib/python3']
PATHS = ['/app/pkg/mod.py', '/app/pkg/sub/deep.py', '/app/vendor/lib/x.py', '/opt/lib/y.py', '/app/pkx/z.py',
         '/usr/lib/python3/os.py', '/app/main.py', '/elsewhere/f.py', '/app/pkg', sys.exec_prefix + '/lib/site.py']


# a logging configuration that exists (the agent's own default file will do)
EXISTING_CONF = os.path.join(os.path.dirname(deep.logging.__file__), 'logging.conf')


class EnvPatch:
    def __init__(self, values):
        self.values = values
        self.saved = {}

    def __enter__(self):
        for k in ALL_DEEP_ENV:
            self.saved[k] = os.environ.pop(k, None)
        for k, v in self.values.items():
            os.environ[k] = v
        importlib.reload(deep.config)
        return self

    def __exit__(self, *a):
        for k in list(self.values):
            os.environ.pop(k, None)
        for k, v in self.saved.items():
            if v is not None:
                os.environ[k] = v
        importlib.reload(deep.config)


def split_list(text):
    return text.split(',') if ',' in text else [text]


def flat_str_list(v):
    return isinstance(v, list) and all(isinstance(x, str) for x in v)


class C19(Prop):
    id = 'C19'
    level = 'exploration'
    rule = ('(a) resolve table: %d documented + %d unknown keys x code {value, callable, None, absent} x env {set, unset}, '
            'enumerated completely with representative values, plus generated values; (b) parity of every documented '
            'key, code vs environment text, observed at the channel constructor / auth metadata / logging config / poll '
            'timer / frame classifier through deep.start(); (c) generated paths x include / exclude / app-root prefix '
            'sets (nested, equal, stem-sharing) x the three ways of supplying a list. non-trivial = (a) >= 2 sources '
            'define the key, (b) every row, (c) a path matching >= 2 of include/exclude/root; distinct = distinct recipe'
            % (len(DOC_KEYS), len(UNKNOWN_KEYS)))
    assumptions = ['value domains follow the docs: SERVICE_SECURE is the documented string form, include/exclude are comma '
                   'separated strings (or lists in code), POLL_TIMER a positive number',
                   'deep.config reads its defaults at import: each row patches os.environ and reloads the module',
                   'short path for a file under no prefix is the file name; for an excluded file the excluded prefix is '
                   'the matched one',
                   'paths under sys.exec_prefix (always excluded by the environment-backed default) are left out of the '
                   'code-vs-environment comparison']
    quick_examples = 450
    thorough_examples = 3000
    exhaustive_quick = True
    exhaustive_thorough = True
    floors = {'parity': 0.1, 'classify': 0.2, 'two_sources': 0.05}

    def enumerate(self, tier, shard=0, nshards=1):
        i = 0
        for key in DOC_KEYS + [k for k in UNKNOWN_KEYS if k not in DOC_KEYS]:
            for code in ('value', 'callable', 'none', 'absent'):
                for env in (True, False):
                    i += 1
                    if i % nshards == shard:
                        yield {'mode': 'resolve', 'key': key, 'code': code, 'env': env, 'v': 1}

    def strategy(self, tier):
        resolve = fd({'mode': st.just('resolve'), 'key': st.sampled_from(DOC_KEYS + UNKNOWN_KEYS),
                                         'code': st.sampled_from(['value', 'callable', 'none', 'absent']),
                                         'env': st.booleans(), 'v': st.integers(0, 5)})
        plist = st.lists(st.sampled_from(PREFIXES), max_size=3, unique=True)
        # text as people write it: trailing separators, doubled separators, dot segments, relative, padded
        raw = PREFIXES + ['/app/pkg/', '/app/', '/app//pkg', '/app/pkg/../vendor', '/app/./pkg', 'app/pkg', '/app/pkg ',
                          '']       # an empty element: a doubled or trailing comma
        plist_raw = st.lists(st.sampled_from(raw), max_size=3, unique=True)
        parity = st.one_of(
            fd({'mode': st.just('parity'), 'key': st.just('POLL_TIMER'),
                                   'value': st.sampled_from([5, 10, 1000, 2.5, 60])}),
            fd({'mode': st.just('parity'), 'key': st.just('SERVICE_SECURE'),
                                   # in code the natural way to write it is the Python bool; the environment form of
                                   # that is its text
                                   'value': st.sampled_from(['True', 'False', 'false', 'true', 'no', '1', True, False])}),
            fd({'mode': st.just('parity'), 'key': st.just('SERVICE_URL'),
                                   'value': st.sampled_from(['localhost:1234', 'deep.example:443', 'x:1'])}),
            fd({'mode': st.just('parity'), 'key': st.just('LOGGING_CONF'),
                                   'value': st.sampled_from(['/etc/deep/logging.conf', '/tmp/l.conf', EXISTING_CONF])}),
            fd({'mode': st.just('parity'), 'key': st.just('SERVICE_AUTH_PROVIDER'),
                                   'value': st.just('deep.api.auth.BasicAuthProvider'),
                                   'user': st.sampled_from(['bob', 'ü', '']), 'password': st.sampled_from(['pw', 'p:w', ''])}),
            fd({'mode': st.just('parity'), 'key': st.sampled_from(['IN_APP_INCLUDE', 'IN_APP_EXCLUDE']),
                                   'value': plist_raw.filter(lambda l: len(l) >= 1).map(','.join)}),
            fd({'mode': st.just('parity'), 'key': st.just('APP_ROOT'),
                                   'value': st.sampled_from([x for x in raw if x])}))
        classify = fd({'mode': st.just('classify'), 'include': plist, 'exclude': plist,
                                          'root': st.sampled_from(PREFIXES + ['', '/nowhere']),
                                          'form': st.sampled_from(['list', 'string', 'env'])})
        return st.one_of(resolve, parity, parity, classify, classify)

    def run_case(self, recipe):
        lab.reset_world()
        try:
            return getattr(self, 'case_' + recipe['mode'])(recipe)
        finally:
            lab.reset_world()

    # ---- (a) -------------------------------------------------------------------------------------------------
    def case_resolve(self, r):
        out = Outcome()
        out.cls('resolve')
        key = r['key']
        env_text = {'POLL_TIMER': '7', 'SERVICE_SECURE': 'False', 'IN_APP_INCLUDE': '/a,/b', 'IN_APP_EXCLUDE': '/x,/y',
                    }.get(key, 'env-%s-%d' % (key.lower(), r['v']))
        code_val = {'POLL_TIMER': 20 + r['v'], 'IN_APP_INCLUDE': ['/c%d' % r['v']], 'IN_APP_EXCLUDE': ['/d%d' % r['v']],
                    }.get(key, 'code-%s-%d' % (key.lower(), r['v']))
        env = {'DEEP_' + key: env_text} if r['env'] else {}
        custom = {}
        if r['code'] == 'value':
            custom[key] = code_val
        elif r['code'] == 'callable':
            # "values supplied as functions are called": plain functions, but also bound methods, partials, builtins
            import functools
            kind = r['v'] % 4

            class Holder:
                def get(self):
                    return code_val
            custom[key] = [lambda: code_val, Holder().get, functools.partial(lambda v: v, code_val),
                           [code_val].__reversed__ if False else Holder().get][kind]
            if isinstance(code_val, str) and kind == 3:
                custom[key] = code_val.__str__          # a builtin method wrapper
        elif r['code'] == 'none':
            custom[key] = None
        sources = (r['code'] in ('value', 'callable')) + bool(r['env']) + (key in ENV_BACKED or key in (
            'IN_APP_INCLUDE', 'IN_APP_EXCLUDE', 'APP_ROOT'))
        if sources >= 2:
            out.cls('two_sources')
            out.nontrivial = True
        with EnvPatch(env):
            cfg = ConfigService(custom, tracepoints=TracepointConfigService())
            try:
                got = getattr(cfg, key)
            except BaseException as e:      # noqa
                out.violate('resolving %s raised %s' % (key, type(e).__name__))
                return out
            if r['code'] in ('value', 'callable'):
                if got != code_val:
                    out.violate('value given in code does not win' if r['code'] == 'value' else
                                'callable given in code is not called / does not win',
                                {'key': key, 'got': repr(got)[:80], 'env': r['env']})
                return out
            # code absent / None -> environment-backed default, then DEEP_<KEY> for unknown keys, else absent
            if key in ENV_BACKED:
                exp = env_text if r['env'] else ENV_BACKED[key]
                if got != exp:
                    out.violate('environment-backed default wrong', {'key': key, 'got': repr(got), 'expected': repr(exp)})
            elif key in ('IN_APP_INCLUDE', 'IN_APP_EXCLUDE'):
                if not flat_str_list(got):
                    out.violate('%s from the environment is not a flat list of prefixes' % key,
                                {'got': repr(got)[:120], 'env': env_text if r['env'] else None})
                    return out
                parts = split_list(env_text) if r['env'] else []
                if any(p not in got for p in parts):
                    out.violate('%s from the environment loses a prefix' % key, {'got': got, 'parts': parts})
            elif key == 'APP_ROOT':
                pass        # resolved by deep.start(): covered by parity
            else:
                exp = env_text if r['env'] else None
                if got != exp:
                    out.violate('unknown key: DEEP_<KEY> environment variable not used / absent value not None',
                                {'key': key, 'got': repr(got), 'expected': repr(exp)})
        return out

    # ---- (b) -------------------------------------------------------------------------------------------------
    def observe(self, config, env):
        """Start the agent through deep.start() with channel constructors / fileConfig recorded; -> observation."""
        obs = {}
        made = []
        real_ins, real_sec, real_fc = grpc.insecure_channel, grpc.secure_channel, logging.config.fileConfig
        old = sys.gettrace(), threading.gettrace()

        def insecure(target, *a, **k):
            made.append(('insecure', target))
            return lab.FakeChannel()

        def secure(target, creds, *a, **k):
            made.append(('secure', target))
            return lab.FakeChannel()

        def file_config(fname=None, *a, **k):
            obs['logging_conf'] = fname
            # (the standard library's default for this is True: every logger the application made before is switched off)
            obs['logging_keeps_existing_loggers'] = k.get('disable_existing_loggers', True) is False
        d = None
        with EnvPatch(env):
            grpc.insecure_channel, grpc.secure_channel, logging.config.fileConfig = insecure, secure, file_config
            try:
                cfg = dict(config)
                cfg.setdefault('PLUGIN_OTELPLUGIN', 'False')
                cfg.setdefault('PLUGIN_PROMETHEUSPLUGIN', 'False')
                cfg.setdefault('PLUGIN_OTELMETRICS', 'False')
                given = dict(cfg)
                d = deep.start(cfg)
                if cfg != given:
                    # the dict is the application's own object: reading settings from it must not write into it
                    obs['caller_dict_changed'] = sorted(set(cfg) ^ set(given)) or 'values'
                sys.settrace(old[0])
                threading.settrace(old[1])
                obs['channel'] = made[-1] if made else None
                polls = d.grpc.channel.of('poll') if d.grpc.channel else []
                obs['metadata'] = polls[0]['metadata'] if polls else 'no poll'
                t = d.poll.timer
                t.thread.join(0.05)
                obs['timer_alive'] = t.thread.is_alive()
                try:
                    obs['timer_interval'] = float(t.interval)
                except (TypeError, ValueError):
                    obs['timer_interval'] = repr(t.interval)
                try:
                    obs['timer_arith'] = 0 <= t._time <= float(t.interval)
                except BaseException as e:      # noqa
                    obs['timer_arith'] = 'raises %s' % type(e).__name__
                cls = []
                for p in PATHS:
                    try:
                        cls.append(tuple(d.config.is_app_frame(p)))
                    except BaseException as e:      # noqa
                        cls.append('raises %s' % type(e).__name__)
                # the interpreter's own prefix is always excluded by the environment-backed default but not part of a
                # list given in code; the statement is about the configured prefixes, so it is left out of parity
                obs['classification'] = [c for p, c in zip(PATHS, cls) if not p.startswith(sys.exec_prefix)]
                obs['classification_all'] = cls
            except BaseException as e:      # noqa
                obs['start'] = 'raised %s' % lab.exc_bucket(e)
            finally:
                sys.settrace(old[0])
                threading.settrace(old[1])
                grpc.insecure_channel, grpc.secure_channel, logging.config.fileConfig = real_ins, real_sec, real_fc
                if d is not None:
                    try:
                        d.shutdown()
                    except BaseException:      # noqa
                        pass
                    try:
                        d.task_handler._pool.shutdown(wait=False)
                    except BaseException:      # noqa
                        pass
        return obs

    def case_parity(self, r):
        out = Outcome()
        out.cls('parity', 'parity_' + r['key'])
        out.nontrivial = True
        key, v = r['key'], r['value']
        base = {'SERVICE_SECURE': 'False', 'POLL_TIMER': 1000, 'APP_ROOT': '/app'}
        code_cfg = dict(base)
        env_cfg = dict(base)
        code_cfg[key] = v
        env_cfg.pop(key, None)
        env = {'DEEP_' + key: str(v)}
        if key == 'SERVICE_AUTH_PROVIDER':
            code_cfg.update({'SERVICE_USERNAME': r['user'], 'SERVICE_PASSWORD': r['password']})
            env.update({'DEEP_SERVICE_USERNAME': r['user'], 'DEEP_SERVICE_PASSWORD': r['password']})
        oc = self.observe(code_cfg, {})
        oe = self.observe(env_cfg, env)
        if 'start' in oc:
            out.violate('setting given in code: start %s' % oc['start'], {'key': key, 'value': v})
            return out

        if 'start' in oe:
            out.violate('setting given in the environment: start %s' % oe['start'], {'key': key, 'value': v})
            return out
        for k in ('timer_alive', 'timer_arith'):
            if oe[k] is not True:
                out.violate('setting from the environment breaks the poll timer (%s)' % k, {'key': key, 'obs': oe[k]})
                return out
            if oc[k] is not True:
                out.violate('setting from code breaks the poll timer (%s)' % k, {'key': key, 'obs': oc[k]})
                return out
        for field in ('channel', 'metadata', 'logging_conf', 'timer_interval', 'classification'):
            if oc.get(field) != oe.get(field):
                out.violate('code and environment behave differently for %s (%s)' % (key, field),
                            {'code': repr(oc.get(field))[:200], 'env': repr(oe.get(field))[:200]})
                return out
        # given in both places, the value from code wins - observed where the setting acts, not at the config object
        other = {'POLL_TIMER': '77', 'SERVICE_SECURE': 'True' if str(v).lower() in ('false', 'no') else 'False',
                 'SERVICE_URL': 'other.example:9', 'LOGGING_CONF': '/etc/other/logging.conf',
                 'IN_APP_INCLUDE': '/elsewhere', 'IN_APP_EXCLUDE': '/elsewhere', 'APP_ROOT': '/elsewhere'}.get(key)
        if other is not None and str(other) != str(v):
            ob = self.observe(code_cfg, {'DEEP_' + key: other})
            for field in ('channel', 'metadata', 'logging_conf', 'timer_interval', 'classification'):
                if ob.get(field) != oc.get(field):
                    out.violate('given in code and in the environment: the value from code does not win for %s (%s)' % (
                        key, field), {'code_only': repr(oc.get(field))[:200], 'both': repr(ob.get(field))[:200]})
                    return out
        # the setting must actually act
        if key == 'SERVICE_URL' and oc['channel'][1] != v:
            out.violate('SERVICE_URL does not reach the channel')
        if key == 'SERVICE_SECURE':
            exp = 'secure' if str(v).lower() in ('yes', 'true', 't', '1', 'y') else 'insecure'
            if oc['channel'][0] != exp:
                out.violate('SERVICE_SECURE does not select the channel kind', {'value': v, 'got': oc['channel'][0]})
        if key == 'LOGGING_CONF' and oc.get('logging_conf') != v:
            out.violate('LOGGING_CONF does not reach logging.config.fileConfig')
        if key == 'LOGGING_CONF' and (oc.get('logging_keeps_existing_loggers'), oe.get('logging_keeps_existing_loggers')) \
                != (True, True):
            # the setting names the file; what else the configuration call does must not depend on it
            out.violate('LOGGING_CONF changes how the logging configuration is applied (existing loggers are disabled)')
        if key == 'POLL_TIMER' and oc['timer_interval'] != float(v):
            out.violate('POLL_TIMER does not set the timer interval')
        if key in ('IN_APP_INCLUDE', 'IN_APP_EXCLUDE', 'APP_ROOT'):
            parts = [x for x in v.split(',') if x] if key != 'APP_ROOT' else [v]      # an empty element names no prefix
            inc = parts if key == 'IN_APP_INCLUDE' else []
            exc = parts if key == 'IN_APP_EXCLUDE' else []
            root = v if key == 'APP_ROOT' else '/app'
            self.check_classification(out, oc['classification_all'], inc, exc, root, 'given in code', allow_exec_prefix=True)
        return out

    def check_classification(self, out, got, inc, exc, root, tag, allow_exec_prefix=False):
        for p, g in zip(PATHS, got):
            if isinstance(g, str):
                out.violate('classification %s: is_app_frame %s' % (tag, g), {'path': p})
                return False
            exp = oracle.app_frame_reference(p, inc, exc, root)
            if g != exp:
                if allow_exec_prefix and p.startswith(sys.exec_prefix) and g[0] is False:
                    continue        # the interpreter's own prefix is excluded by default
                what = 'app flag' if g[0] != exp[0] else 'matched prefix'
                out.violate('classification %s: wrong %s' % (tag, what), {'path': p, 'got': g, 'expected': exp,
                                                                          'include': inc, 'exclude': exc, 'root': root})
                return False
        return True

    # ---- (c) -------------------------------------------------------------------------------------------------
    def case_classify(self, r):
        out = Outcome()
        out.cls('classify', 'classify_' + r['form'])
        inc, exc, root = r['include'], r['exclude'], r['root']
        n_match = 0
        for p in PATHS:
            m = any(p.startswith(x) for x in inc) + any(p.startswith(x) for x in exc) + bool(root and p.startswith(root))
            n_match = max(n_match, m)
        out.nontrivial = n_match >= 2
        custom = {'APP_ROOT': root}
        env = {}
        if r['form'] == 'list':
            custom.update({'IN_APP_INCLUDE': list(inc), 'IN_APP_EXCLUDE': list(exc)})
        elif r['form'] == 'string':
            if inc:
                custom['IN_APP_INCLUDE'] = ','.join(inc)
            if exc:
                custom['IN_APP_EXCLUDE'] = ','.join(exc)
        else:
            if inc:
                env['DEEP_IN_APP_INCLUDE'] = ','.join(inc)
            if exc:
                env['DEEP_IN_APP_EXCLUDE'] = ','.join(exc)
        with EnvPatch(env):
            cfg = ConfigService(custom, tracepoints=TracepointConfigService())
            got = []
            for p in PATHS:
                try:
                    got.append(tuple(cfg.is_app_frame(p)))
                except BaseException as e:      # noqa
                    got.append('raises %s' % type(e).__name__)
        form = {'list': 'prefix lists given in code', 'string': 'comma separated strings given in code',
                'env': 'comma separated strings from the environment'}[r['form']]
        self.check_classification(out, got, inc, exc, root, '(%s)' % form,
                                  allow_exec_prefix=(r['form'] != 'list' or not exc) and True)
        return out


PROP = C19()
