"""C10 - conditions and expressions: gate firing, frame scope, errors contained.

A tracepoint with a generated condition, fire budget and watches is hit repeatedly on real paused frames of
a host module that has its own globals; each hit has different local state.  The oracle evaluates the
condition and every expression itself in the frame's own (f_globals, f_locals) and feeds the truth stream to
the reference limiter: a rejected hit (false or failing) produces nothing and consumes no budget.
"""
import keyword
import warnings

from hypothesis import strategies as st

from vf import lab, oracle
from vf.core import Prop, Outcome, fd

from deep.api.tracepoint.trigger import build_trigger
from deep.api.tracepoint.tracepoint_config import MetricDefinition, LabelExpression

PATH, LINE = 'c10_host.py', 5


class HostBase(BaseException):
    pass


def boom(msg):
    raise Exception(msg)


def boom_base():
    raise HostBase('base')


def helper(v):
    return v * 2


class Unprintable(Exception):
    def __str__(self):
        raise RuntimeError('this error has no text')


def boom_unprintable():
    raise Unprintable()


class NoRepr:
    def __repr__(self):
        raise RuntimeError('no repr either')


class Unshowable(Exception):
    # neither form can be produced: what KeyError(key) is like for a key whose repr fails
    def __str__(self):
        raise RuntimeError('this error has no text')

    def __repr__(self):
        raise RuntimeError('this error has no repr')


def boom_unshowable():
    raise Unshowable()


def boom_key():
    return {}[NoRepr()]


def picky(v):
    """True for most arguments; for some it fails, each time with a different kind of error - among them the errors that
    parsing data at run time raises (SyntaxError from literal_eval / compile), which say nothing about the condition's
    own text.  A hit on which the condition fails is one rejected hit; the next hit is judged on its own."""
    if v == 0:
        raise SyntaxError('malformed data')
    if v == 1:
        raise ValueError('bad value')
    if v == 2:
        raise StopIteration()
    if v == 3:
        raise RecursionError('too deep')
    if v == 4:
        raise IndentationError('bad data')
    return True


HOST_GLOBALS = {'picky': picky, 'G': 5, 'GFLAG': True, 'GOFF': False, 'GLIST': [1, 2, 3], 'boom': boom, 'boom_base': boom_base,
                'boom_unprintable': boom_unprintable, 'boom_unshowable': boom_unshowable, 'boom_key': boom_key,
                'helper': helper, '__name__': 'c10_host'}

BOOL_CONDS = ['y', 't', 'not y', 'y and t', 'G > 50', 'G == x', 'x > 3', 'flag', 'not flag', 'x % 2 == 0', 'flag and x > 1', 'G > x', 'GFLAG', 'GOFF', 'True', 'False',
              'isinstance(x, int)', "'a' in s", 'x in GLIST', 'helper(x) > 4', 'len(s) > 2', 'x == G',
              # text literals in which white space matters
              "s == 'a  b'", "'  ' in s", "'\t' in s", "s == 'a b'"]
# a generator expression / lambda inside the expression: the frame's locals are its enclosing scope
NESTED_CONDS = ['any(v > x for v in GLIST)', '(lambda: x > 3)()', 'all(v != x for v in GLIST)',
                'any(v > G for v in [1, 50, 200])', 'any(v > 1 for v in GLIST)']
NESTED_WATCHES = ['sum(v for v in GLIST if v > x)', '(lambda: x + 1)()', '[v + x for v in GLIST]',
                  'max(v * G for v in GLIST)', 'sorted(k for k in s)', 'list(map(lambda v: v + x, GLIST))']
# conditions that fail on some hits (with errors of several kinds, SyntaxError among them) and hold on others
MIXED_CONDS = ['picky(x)', 'picky(x) and flag', 'picky(len(s))', 'flag or picky(x)', 'compile(s, "<data>", "eval") is not None',
               "eval(s or '1') != None"]
BLANK_CONDS = ['', '  ']
FAIL_CONDS = ['yes', 'true', 'Y', '1/0', 'undefined_name', 'd[1]', "boom('true')", "boom('yes')", "boom('1')", "boom('t')", 'boom_base()',
              'x.nope', 'x >', ')(', "d['y']", "boom('false')", 'int(s)', 'boom_unprintable()',
              'boom_unshowable()', 'boom_key()']
FAILING_WATCHES = ['1/0', 'nope', 'x +', 'd[1]', 'boom_base()', "boom('w')", 'x.nope', 'boom_unprintable()',
                   'boom_unshowable()', 'boom_key()']
AGENT_ONLY = ['uuid', 'deep', 'time_ns', 'FrameCollector', 'LocationAction', 'TriggerContext', 'VariableCacheProvider']
WATCHES = ['x', 'G', 'y', 'helper', 'G + 1', 'GLIST', 'helper(x)', 'len(s)', 'x + G', 's', 'flag', '1/0', 'nope', 'x +', 'd[1]',
           'boom_base()', "boom('w')", 'x.nope', 'boom_unprintable()', 'boom_unshowable()', 'boom_key()',
           # the two namespaces themselves: what is local and what is global at that line
           'sorted(locals())', 'len(locals())', "globals()['G']", "'G' in locals()", "'x' in globals()", 'sorted(dir())',
           # expression text as a user types it: blanks around it are not part of the expression
           ' x', '\tx + G', 'G ', '  helper(x)  ', "s.split('  ')", "'a  b' + s", "len('\t')"] + AGENT_ONLY


def plain_eval(expr, frame):
    """-> ('ok', value) | ('fail', exception): eval() with the two namespaces, where a generator expression or a lambda
    inside the expression does not see the locals mapping (their free names are compiled as global look-ups)."""
    try:
        return 'ok', eval(expr, frame.f_globals, frame.f_locals)
    except BaseException as e:      # noqa
        return 'fail', e


def host_eval(expr, frame):
    """-> ('ok', value) | ('fail', exception): what the expression computes written on that line - the frame's locals
    are the enclosing scope of everything in it (the expression is compiled inside a function whose parameters are the
    frame's locals, with the frame's globals as its module namespace)."""
    names = [n for n in frame.f_locals if isinstance(n, str) and n.isidentifier() and not keyword.iskeyword(n)]
    if len(names) != len(frame.f_locals):
        return plain_eval(expr, frame)
    try:
        with warnings.catch_warnings():
            warnings.simplefilter('ignore')
            compile(expr.strip(), '<expr>', 'eval')         # it has to be an expression on its own first
            code = compile('def __expr__(%s):\n return (\n%s\n)' % (', '.join(names), expr.strip()), '<expr>', 'exec')
    except BaseException as e:      # noqa
        return 'fail', e
    ns = {}
    try:
        exec(code, frame.f_globals, ns)
        return 'ok', ns['__expr__'](*[frame.f_locals[n] for n in names])
    except BaseException as e:      # noqa
        return 'fail', e


def same_outcome(a, b):
    if a[0] != b[0]:
        return False
    if a[0] == 'fail':
        return type(a[1]) is type(b[1])
    try:
        return type(a[1]) is type(b[1]) and bool(a[1] == b[1])
    except BaseException:      # noqa
        return False


NESTED_SIG = ('%s with a generator expression / lambda naming a local of the frame: the nested scope does not see the '
              'locals (the result is that of eval with separate namespaces, not what the line computes)')


class C10(Prop):
    id = 'C10'
    level = 'exploration'
    rule = ('condition (boolean-valued over locals / host-module globals / builtins / host helpers, blank, or failing '
            'incl. exception texts "1"/"true"/"yes", BaseException, syntax errors) x fire_count 1-3/-1 x 1-8 hits with '
            'per-hit local state x action kind x watches (in scope, host globals, failing, agent-only names); '
            'non-trivial = a rejected hit followed by an accepted one, or a watch naming a host global or an '
            'agent-only name; distinct = distinct recipe')
    assumptions = ['conditions are boolean-valued or failing (truthy non-booleans are not defined by the statement)',
                   'expressions are side-effect free',
                   'hits are driven through TriggerHandler.trace_call on suspended-generator frames of a host module']
    quick_examples = 1200
    thorough_examples = 6000
    fuzz_runs = 15000
    floors = {'reject_then_accept': 0.06, 'failing_condition': 0.04, 'host_global_watch': 0.1,
              'agent_only_watch': 0.08, 'local_shadows_global': 0.2}

    def strategy(self, tier):
        atom = st.one_of(st.sampled_from(['x', 'G', 'len(s)', 'helper(x)', 'len(d)', 'GLIST[0]']),
                         st.integers(0, 9).map(str))
        cmp_ = st.tuples(atom, st.sampled_from(['<', '>', '==', '!=', '<=']), atom).map(lambda t: '%s %s %s' % t)
        boolean = st.one_of(cmp_, st.sampled_from(['flag', 'not flag', 'GFLAG', 'GOFF']))
        grammar = st.one_of(boolean, st.tuples(boolean, st.sampled_from(['and', 'or']), boolean).map(
            lambda t: '(%s) %s (%s)' % t), boolean.map(lambda b: 'not (%s)' % b))
        cond = st.one_of(grammar, grammar, st.sampled_from(BOOL_CONDS), st.sampled_from(FAIL_CONDS),
                         st.sampled_from(BLANK_CONDS), st.none())
        # blanks before / after the expression text (as typed into a form)
        padded = st.tuples(st.sampled_from([' ', '\t', '  ']), st.one_of(grammar, st.sampled_from(BOOL_CONDS)),
                           st.sampled_from(['', ' '])).map(lambda t: t[0] + t[1] + t[2])
        cond = st.one_of(cond, cond, cond, cond, cond, padded, st.sampled_from(NESTED_CONDS), st.sampled_from(MIXED_CONDS))
        hit = fd({'x': st.integers(0, 8), 'flag': st.booleans(), 'y': st.booleans(),
                                     't': st.booleans(), 'shadow': st.sampled_from([None, None, 99, 3]),
                                     's': st.sampled_from(['', 'abc', 'zzzz', '12', 'a  b', 'a b', 'x\ty']),
                                     'd': st.sampled_from([0, 1]), 'gap_ms': st.sampled_from([0, 1, 10, 1000])})
        return fd({
            'cond': cond,
            'fire_count': st.sampled_from(['1', '2', '3', '-1']),
            'fire_period': st.sampled_from(['0', '0', '10']),
            'hits': st.one_of(st.lists(hit, min_size=1, max_size=8), st.lists(hit, min_size=4, max_size=8)),
            'kind': st.sampled_from(['snapshot', 'snapshot', 'log', 'metric', 'span']),
            # another tracepoint on the same line, evaluated first, whose metric expression has the same text as the
            # condition / first watch of the tracepoint under test
            'pre_metric': st.sampled_from([None, None, 'cond', 'watch']),
            # further actions asked for by the same tracepoint (same condition, same budget)
            'also': st.lists(st.sampled_from(['metric', 'span']), max_size=2, unique=True),
            'watches': st.one_of(st.lists(st.sampled_from(WATCHES), max_size=3, unique=True),
                                st.lists(st.sampled_from(AGENT_ONLY + ['G', 'x + G']), min_size=1, max_size=3, unique=True),
                                # a watch that fails costs that watch only - whatever the error is like
                                st.lists(st.sampled_from(FAILING_WATCHES + ['x', 'G']), min_size=1, max_size=3,
                                         unique=True),
                                st.lists(st.sampled_from(NESTED_WATCHES + ['x']), min_size=1, max_size=2, unique=True)),
        })

    def run_case(self, recipe):
        out = Outcome()
        lab.reset_world()
        cond = recipe['cond']
        kind = recipe['kind']
        args = {'fire_count': recipe['fire_count'], 'fire_period': recipe['fire_period']}
        if cond is not None:
            args['condition'] = cond
        metrics = []
        if kind == 'log':
            args.update({'log_msg': 'x={x} g={G}', 'snapshot': 'no_collect'})
        elif kind == 'metric':
            args['snapshot'] = 'no_collect'
            metrics = [MetricDefinition('m1', 'gauge', [LabelExpression('lg', None, 'G')], 'x + G')]
        elif kind == 'span':
            args.update({'span': 'line', 'snapshot': 'no_collect'})
        also = [a for a in recipe.get('also') or [] if a != kind]
        if 'metric' in also:
            metrics = [MetricDefinition('m1', 'gauge', [LabelExpression('lg', None, 'G')], 'x + G')]
        if 'span' in also:
            args['span'] = 'line'
        if also:
            out.cls('several_actions')
        watches = list(recipe['watches']) if kind == 'snapshot' else []
        trig = build_trigger('tp', PATH, LINE, args, watches, metrics)
        logger, mproc, sproc = lab.RecLogger(), lab.RecMetricProcessor(), lab.RecSpanProcessor()
        trigs = [trig]
        pm = recipe.get('pre_metric')
        pm_expr = (cond if pm == 'cond' else (watches[0] if (pm == 'watch' and watches) else None))
        if pm_expr and pm_expr.strip() and kind != 'metric':
            out.cls('same_expression_in_an_earlier_metric')
            trigs = [build_trigger('tp-pre', PATH, LINE, {'fire_count': '-1', 'fire_period': '0', 'snapshot': 'no_collect'},
                                   [], [MetricDefinition('pre', 'counter', [], pm_expr)]), trig]
        handler, cfg, push = lab.make_handler(trigs, plugins=[logger, mproc, sproc])
        fc = int(recipe['fire_count'])
        period_ns = int(recipe['fire_period']) * 1_000_000
        count, last = 0, None
        rejected_seen = False
        if cond in FAIL_CONDS:
            out.cls('failing_condition')
        if cond and cond.strip() and cond != cond.strip() or any(w != w.strip() for w in watches):
            out.cls('blank_padded_expression')
        if any('locals()' in w or 'globals()' in w or 'dir()' in w for w in watches):
            out.cls('namespace_watch')
        if any(w in ('G', 'GLIST', 'x + G', 'helper(x)') for w in watches) or kind in ('log', 'metric'):
            out.cls('host_global_watch')
        if any(w in AGENT_ONLY for w in watches):
            out.cls('agent_only_watch')
            out.nontrivial = True
        if 'host_global_watch' in out.classes:
            out.nontrivial = True
        for hi, hit in enumerate(recipe['hits']):
            lab.CLOCK.advance_ms(hit['gap_ms'])
            lab.CLOCK.advance_ns(1)
            local_values = {'x': hit['x'], 'flag': hit['flag'], 's': hit['s'], 'd': {1: 'one'} if hit['d'] else {},
                            'y': hit.get('y', False), 't': hit.get('t', True)}
            if hit.get('shadow') is not None:
                local_values['G'] = hit['shadow']          # a local that shadows a module-level name
                out.cls('local_shadows_global')
            gen = lab.frame_at(PATH, LINE, 'target', local_values, globs=HOST_GLOBALS)
            frame = gen.gi_frame
            # ---- oracle ------------------------------------------------------------------------------
            cond_gap = False
            if cond is None or not cond.strip():
                truth = True
            else:
                st_, v = host_eval(cond, frame)
                truth = (st_ == 'ok' and v is True)
                if st_ == 'ok' and not isinstance(v, bool):
                    gen.close()
                    continue
                if cond in NESTED_CONDS:
                    out.cls('nested_scope_expression')
                cond_gap = not same_outcome((st_, v), plain_eval(cond, frame))
            t = lab.CLOCK.now + 0      # the agent reads the clock once per event
            n0 = (len(push.snapshots), len(logger.calls), len(mproc.calls), len(sproc.spans))
            try:
                handler.trace_call(frame, 'line', None)
            except BaseException as e:      # noqa
                out.violate('trace_call raised %s' % lab.exc_bucket(e))
            t_agent = lab.CLOCK.now
            limits_allow = (fc == -1 or count < fc) and (last is None or t_agent - last >= period_ns)
            expect = limits_allow and truth
            n1 = (len(push.snapshots), len(logger.calls), len(mproc.calls), len(sproc.spans))
            idx = {'snapshot': 0, 'log': 1, 'metric': 2, 'span': 3}[kind]
            acted = n1[idx] - n0[idx]
            if expect:
                count += 1
                last = t_agent
                if rejected_seen:
                    out.cls('reject_then_accept')
                    out.nontrivial = True
            elif limits_allow:
                rejected_seen = True
            for other in also:
                oi = {'metric': 2, 'span': 3}[other]
                n_other = n1[oi] - n0[oi]
                if other == 'metric':       # not the metric of the earlier tracepoint on this line
                    n_other = len([c for c in mproc.calls[n0[2]:] if str(c[1]).startswith('m1')])
                if n_other != (1 if expect else 0) and acted == (1 if expect else 0):
                    out.violate('the %s action of the same tracepoint %s' % (
                        other, 'acted on a hit its condition or limits reject' if not expect else 'did not act'),
                        {'cond': cond, 'hit': hi, 'truth': truth, 'limits_allow': limits_allow})
            if out.violations:
                gen.close()
                break
            if acted != (1 if expect else 0) and cond_gap and limits_allow:
                # one root cause, told apart by what the two evaluations give: the expression's nested scope
                out.violate(NESTED_SIG % 'condition', {'cond': cond, 'hit': hi, 'acted': acted})
                gen.close()
                break
            if acted != (1 if expect else 0):
                if acted and not truth:
                    st_, v = host_eval(cond, frame) if cond and cond.strip() else ('ok', True)
                    why = 'failing condition accepted (exception text %r)' % str(v)[:10] if st_ == 'fail' else \
                        'false condition accepted'
                    out.violate(why, {'cond': cond, 'hit': hi})
                elif acted and not limits_allow:
                    out.violate('fired beyond its limits (rejected hits consumed budget?)', {'hit': hi})
                elif not acted and expect:
                    errs = ','.join(sorted(set(lab.LOGS.errors())))[:100]
                    scope = 'host-global condition' if any(g in (cond or '') for g in ('G', 'helper', 'boom')) else 'condition'
                    out.violate('permitted hit with true %s did not act [%s]' % (scope, errs),
                                {'cond': cond, 'hit': hi, 'count': count, 'fc': fc})
                else:
                    out.violate('acted %d times on one hit' % acted)
                gen.close()
                break
            # ---- expressions evaluated in the frame's scope ----------------------------------------------
            if expect and kind == 'snapshot':
                snap = push.snapshots[-1]
                got = [w for w in snap.watches if w.source == 'WATCH']
                if [w.expression for w in got] != watches:
                    out.violate('watch list differs from configuration')
                for w in got:
                    st_, v = host_eval(w.expression, frame)
                    if w.expression in NESTED_WATCHES:
                        out.cls('nested_scope_expression')
                    if not same_outcome((st_, v), plain_eval(w.expression, frame)):
                        pst, pv = plain_eval(w.expression, frame)
                        agrees_with_plain = (pst == 'fail') == (w.result is None)
                        if agrees_with_plain:
                            out.violate(NESTED_SIG % 'watch', {'expr': w.expression})
                            continue
                    where = 'agent-only name' if w.expression in AGENT_ONLY else \
                        'host global' if any(g in w.expression for g in ('G', 'helper')) else 'expression'
                    if st_ == 'fail':
                        if w.error is None or w.result is not None:
                            out.violate('failing watch (%s) reported as a good result' % where,
                                        {'expr': w.expression,
                                         'got_type': snap.var_lookup[w.result.vid].type if w.result and w.result.vid in snap.var_lookup else None})
                    else:
                        if w.result is None:
                            out.violate('in-scope watch (%s) reported as an error' % where,
                                        {'expr': w.expression, 'error': w.error})
                        else:
                            try:
                                oracle.compare_var(snap.var_lookup, w.result.vid, v, oracle.Limits(),
                                                   ['watch', w.expression], 1)
                            except oracle.Mismatch as m:
                                out.violate('watch value wrong (%s): %s' % (where, m.kind), {'expr': w.expression})
                # a failing expression must not damage the rest of the snapshot
                names = sorted(v.name for v in snap.frames[0].variables)
                if names != sorted(local_values):
                    out.violate('snapshot variables damaged next to watches')
            if expect and kind == 'log':
                msg = logger.calls[-1][0]
                if msg != '[deep] x=%d g=%s' % (hit['x'], local_values.get('G', 5)):
                    out.violate('log field naming a host global not rendered', {'msg': msg})
            if expect and kind == 'metric':
                c = mproc.calls[-1]
                gv = local_values.get('G', 5)
                if c[6] != float(hit['x'] + gv) or c[2].get('lg') != str(gv):
                    out.violate('metric expression / label over a host global wrong', {'value': c[6], 'labels': c[2]})
            gen.close()
        lab.reset_world()
        return out


PROP = C10()
