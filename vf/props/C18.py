"""C18 - resource identity: merge precedence, mandatory keys, bounded attribute store.

(a) histories of set / delete / merge_in / copy on BoundedAttributes of any capacity and value limit against a
    reference model (ordered dict + drop counter + cleaning rules);
(b) chains of resources with overlapping keys and schema URLs, merged left to right: algebra + operand immutability;
(c) Resource.create under generated DEEP_RESOURCE_ATTRIBUTES / DEEP_SERVICE_NAME and code attributes;
(d) end to end: Deep.start() with generated resource-provider plugins -> resource in the first poll request.
"""
import os
from urllib import parse

from hypothesis import strategies as st

from vf import lab, plugsynth
from vf.core import Prop, Outcome, fd

from deep.api.attributes import BoundedAttributes
from deep.api.resource import Resource
from deep.api.deep import Deep
from deep.config import ConfigService
from deep.config.tracepoint_config import TracepointConfigService
from deepproto.proto.poll.v1.poll_pb2 import PollRequest

SDK_KEYS = ['telemetry.sdk.language', 'telemetry.sdk.name', 'telemetry.sdk.version']
VALID = (bool, str, bytes, int, float)


class Obj:
    pass


def build_value(spec):
    k = spec[0]
    if k == 'str':
        return 's' * spec[1] + 'x'
    if k == 'bytes':
        return b'b' * spec[1]
    if k == 'badbytes':
        return b'\xff\xfe' + b'b' * spec[1]
    if k == 'bool':
        return bool(spec[1] % 2)
    if k == 'int':
        return spec[1]
    if k == 'float':
        return spec[1] + 0.5
    if k == 'none':
        return None
    if k == 'seq_str':
        return ['a' * spec[1], 'bb', 'c']
    if k == 'seq_int':
        return (1, 2, spec[1])
    if k == 'seq_mixed':
        return [1, 'a']
    if k == 'seq_bool_int':
        return [True, 1]
    if k == 'seq_none':
        return [None, 'a' * spec[1], None]
    if k == 'seq_nested':
        return [[1], [2]]
    if k == 'seq_bytes':
        return [b'x' * spec[1], b'y']
    if k == 'seq_badbytes':
        return [b'\xff', 'ok']
    if k == 'seq_empty':
        return []
    if k == 'dict':
        return {'a': 1}
    if k == 'obj':
        return Obj()
    raise ValueError(k)


def clean_value(v, limit):
    if v is None:
        return None
    if isinstance(v, bytes):
        try:
            v = v.decode()
        except UnicodeDecodeError:
            return None
    if limit is not None and isinstance(v, str):
        v = v[:limit]
    return v


def model_clean(key, v, limit):
    """-> (accepted?, cleaned)"""
    if not (isinstance(key, str) and key):
        return False, None
    if isinstance(v, VALID):
        c = clean_value(v, limit)
        return (c is not None), c
    if isinstance(v, (list, tuple)):
        first = None
        outl = []
        for e in v:
            c = clean_value(e, limit)
            if c is None:
                if e is not None and isinstance(e, bytes):
                    outl.append(None)      # undecodable element: kept as None by the cleaner
                    continue
                outl.append(None)
                continue
            if type(c) not in VALID:
                return False, None
            if first is None:
                first = type(c)
            elif type(c) is not first:
                return False, None
            outl.append(c)
        return True, tuple(outl)
    return False, None


KEYS = ['k1', 'k2', 'k3', 'k4', 'k5', '', 5, None, (), ('k1', 'k2'), ('k1',)]
VSPEC = st.one_of(*[st.tuples(st.just(k), st.integers(0, 12)) for k in
                    ['str', 'str', 'bytes', 'badbytes', 'bool', 'int', 'float', 'none', 'seq_str', 'seq_int', 'seq_mixed',
                     'seq_bool_int', 'seq_none', 'seq_nested', 'seq_bytes', 'seq_badbytes', 'seq_empty', 'dict', 'obj']])


class C18(Prop):
    id = 'C18'
    level = 'exploration'
    rule = ('(a) capacity {None,0..6} x value limit {None,0..8} x frozen flag x history of set/del/merge_in/copy/iterate with '
            'keys {valid, empty, non-str} and values {str, bytes (UTF-8 / not), bool, int, float, None, homogeneous / mixed '
            '/ nested / None-holding / bytes sequences, dict, object}; (b) chains of 2-5 resources with overlapping keys '
            'and schema URLs {"", a, b}; (c) Resource.create under generated environment; (d) Deep.start with resource '
            'provider plugins -> wire resource. non-trivial = (a) >= 1 eviction or rejected value, (b) >= 1 overriding key, '
            '(c,d) >= 2 sources defining one key; distinct = distinct recipe')
    assumptions = ['"oldest" for eviction: both readings (least recently set / least recently inserted) are accepted',
                   'sequence-valued attributes on the wire are C08\'s subject; (d) compares scalar-valued keys']
    quick_examples = 2500
    thorough_examples = 10000
    fuzz_runs = 15000
    floors = {'attrs_eviction': 0.02, 'attrs_rejected': 0.07, 'attrs_frozen': 0.03, 'merge_override': 0.05,
              'create_env': 0.05, 'start_plugins': 0.03}

    def strategy(self, tier):
        vvalid = st.one_of(*[st.tuples(st.just(k), st.integers(0, 12)) for k in ['str', 'int', 'bytes', 'seq_str', 'float']])
        op = st.one_of(st.tuples(st.just('set'), st.sampled_from(KEYS[:5]), vvalid),
                       st.tuples(st.just('set'), st.sampled_from(KEYS[:5]), vvalid),
                       st.tuples(st.just('set'), st.sampled_from(KEYS), VSPEC),
                       st.tuples(st.just('set'), st.sampled_from(KEYS[:5]), VSPEC),
                       st.tuples(st.just('del'), st.sampled_from(KEYS[:6])),
                       st.tuples(st.just('merge'), st.lists(st.tuples(st.sampled_from(KEYS[:6]), VSPEC), max_size=3),
                                 st.sampled_from([0, 1, 2])),
                       st.tuples(st.just('copy')), st.tuples(st.just('iter')),
                       # the modifying methods a mapping inherits: each of them is a modification too
                       st.tuples(st.just('clear')), st.tuples(st.just('pop'), st.sampled_from(KEYS[:6])),
                       st.tuples(st.just('popitem')),
                       st.tuples(st.just('update'), st.lists(st.tuples(st.sampled_from(KEYS[:6]), VSPEC), max_size=3)),
                       st.tuples(st.just('setdefault'), st.sampled_from(KEYS[:6]), VSPEC))
        attrs = fd({
            'mode': st.just('attrs'),
            'cap': st.sampled_from([None, 0, 1, 2, 1, 2, 3, 4, 6]), 'limit': st.sampled_from([None, 0, 1, 3, 8]),
            'initial': st.lists(st.tuples(st.sampled_from(KEYS[:5]), VSPEC), max_size=4),
            'immutable': st.sampled_from([False, False, False, True]),
            'ops': st.lists(op, min_size=1, max_size=20),
        })
        res = fd({'attrs': st.lists(st.tuples(st.sampled_from(['a', 'b', 'c', 'service.name']),
                                                                 st.sampled_from(['1', '2', '3', '', 'x'])), max_size=3),
                                     'schema': st.sampled_from(['', '', 'a', 'b']),
                                     # many attributes (a large environment, a verbose plugin)
                                     'bulk': st.sampled_from([0, 0, 0, 0, 40, 130, 300])})
        merge = fd({'mode': st.just('merge'), 'chain': st.lists(res, min_size=2, max_size=5)})
        envitem = st.one_of(st.tuples(st.sampled_from(['a', 'b', 'service.name', ' padded ', 'telemetry.sdk.name']),
                                      st.sampled_from(['1', 'v%20x', ' sp ', '', 'a=b', 'z', 'x%2Cy', 'p%3Dq', '%20lead',
                                                       'x%2Cb%3Dshadow', '100%25'])).map(lambda t: '%s=%s' % t),
                            st.sampled_from(['novalue', '', '=', ' ']))
        create = fd({
            'mode': st.just('create'),
            'env_attrs': st.one_of(st.none(), st.lists(envitem, max_size=4).map(','.join)),
            'env_service': st.sampled_from([None, None, 'svc-env', '']),
            # (any valid attribute value: text, number, bool, homogeneous sequence)
            'code': st.lists(st.tuples(st.sampled_from(['a', 'b', 'service.name', 'telemetry.sdk.name',
                                                        'telemetry.sdk.version', 'telemetry.sdk.language',
                                                        'process.executable.name']),
                                       st.sampled_from(['code1', '', 'code2', None, ['mixed', 1], 'code3', 4711, 2.5,
                                                        True, ('py', 'x')])), max_size=3),
            'schema': st.sampled_from([None, '', 'http://s']),
            'env_bulk': st.sampled_from([0, 0, 0, 60, 200]), 'code_bulk': st.sampled_from([0, 0, 0, 60, 200]),
        })
        provider = fd({'order': st.sampled_from([0, 1, 2, -1]), 'kind': st.sampled_from(
            ['ok', 'ok', 'none', 'raises']), 'keys': st.lists(st.sampled_from(['a', 'b', 'service.name', 'p']),
                                                               min_size=1, max_size=2, unique=True)})
        start = fd({'mode': st.just('start'), 'providers': st.lists(provider, min_size=1, max_size=3),
                                       'env_attrs': st.sampled_from([None, 'a=env,b=env']),
                                       'python_plugin': st.booleans()})
        return st.one_of(attrs, attrs, attrs, merge, create, start)

    def run_case(self, recipe):
        lab.reset_world()
        saved = {k: os.environ.get(k) for k in ('DEEP_RESOURCE_ATTRIBUTES', 'DEEP_SERVICE_NAME')}
        try:
            return getattr(self, 'case_' + recipe['mode'])(recipe)
        finally:
            for k, v in saved.items():
                if v is None:
                    os.environ.pop(k, None)
                else:
                    os.environ[k] = v
            lab.reset_world()

    # ---- (a) ---------------------------------------------------------------------------------------------
    def case_attrs(self, r):
        out = Outcome()
        out.cls('attrs')
        cap, limit = r['cap'], r['limit']

        class Model:
            """refresh=True: re-setting a key makes it the newest; False: insertion age is kept."""

            def __init__(self, refresh):
                self.refresh = refresh
                self.d = {}
                self.order = []
                self.dropped = 0

            def set(self, k, v):
                if cap == 0:
                    self.dropped += 1
                    return 'cap0'
                ok, c = model_clean(k, v, limit)
                if not ok:
                    return 'rejected'
                ev = None
                if k in self.d:
                    if self.refresh:
                        self.order.remove(k)
                        self.order.append(k)
                elif cap is not None and len(self.d) == cap:
                    victim = self.order.pop(0)
                    del self.d[victim]
                    self.dropped += 1
                    ev = 'evicted'
                    self.order.append(k)
                else:
                    self.order.append(k)
                self.d[k] = c
                return ev

            def delete(self, k):
                del self.d[k]
                self.order.remove(k)

        models = [Model(True), Model(False)]
        initial = {}
        for k, spec in r['initial']:
            initial[k] = build_value(spec)
        try:
            real = BoundedAttributes(max_length=cap, attributes=initial, immutable=r['immutable'], max_value_len=limit)
        except BaseException as e:      # noqa
            out.violate('constructor raised %s' % type(e).__name__)
            return out

        def m_set(k, v):
            for m in models:
                res = m.set(k, v)
            if res == 'rejected':
                out.cls('attrs_rejected')
            if any(m.dropped for m in models) and cap != 0:
                out.cls('attrs_eviction')

        for k, v in initial.items():
            m_set(k, v)
        frozen = r['immutable']
        if frozen:
            out.cls('attrs_frozen')

        def compare(where):
            nonlocal models
            got = dict(real._dict)
            keep = [m for m in models if m.d == got and m.dropped == real.dropped]
            if not keep:
                m = models[0]
                if m.d != got:
                    what = 'eviction order' if set(m.d) != set(got) and len(m.d) == len(got) else 'content'
                    out.violate('store %s differs from the model after %s' % (what, where),
                                {'model': repr(m.d)[:200], 'store': repr(got)[:200]})
                else:
                    out.violate('drop counter wrong after %s' % where, {'model': m.dropped, 'store': real.dropped})
                return False
            models = keep
            if cap is not None and len(real) > cap:
                out.violate('store holds more than its capacity')
                return False
            for v in got.values():
                if isinstance(v, str) and limit is not None and len(v) > limit:
                    out.violate('stored string longer than the value limit')
                    return False
                if isinstance(v, (bytes, list)):
                    out.violate('stored value not cleaned (bytes / mutable sequence)')
                    return False
            return True
        if not compare('construction'):
            return out
        for op in r['ops']:
            kind = op[0]
            before = (dict(real._dict), real.dropped)
            if kind in ('clear', 'pop', 'popitem', 'update', 'setdefault'):
                out.cls('attrs_inherited_mutator')
                raised = None
                given = {}
                try:
                    if kind == 'clear':
                        real.clear()
                    elif kind == 'pop':
                        real.pop(op[1])
                    elif kind == 'popitem':
                        real.popitem()
                    elif kind == 'update':
                        for k, spec in op[1]:
                            given[k] = build_value(spec)
                        real.update(given)
                    else:
                        given[op[1]] = build_value(op[2])
                        real.setdefault(op[1], given[op[1]])
                except (TypeError, KeyError) as e:
                    raised = e
                except BaseException as e:      # noqa
                    out.violate('%s raised %s' % (kind, type(e).__name__))
                    return out
                after = (dict(real._dict), real.dropped)
                if frozen:
                    if after != before:
                        out.violate('frozen container accepted a %s' % kind)
                        return out
                    continue
                if isinstance(raised, TypeError):
                    out.violate('set/delete raised TypeError on a container that is not frozen')
                    return out
                expect_keyerror = (kind == 'pop' and op[1] not in models[0].d) or (kind == 'popitem' and not models[0].d)
                if isinstance(raised, KeyError) != expect_keyerror:
                    out.violate('unexpected KeyError in %s' % kind if raised else '%s of a missing key did not raise' % kind)
                    return out
                if kind == 'clear':
                    for m in models:
                        m.d.clear()
                        del m.order[:]
                elif kind == 'pop' and not expect_keyerror:
                    for m in models:
                        m.delete(op[1])
                elif kind == 'popitem' and not expect_keyerror:
                    for m in models:
                        m.delete(m.order[0])
                elif kind == 'update':
                    for k, v in given.items():
                        m_set(k, v)
                elif kind == 'setdefault':
                    if op[1] not in models[0].d:
                        m_set(op[1], given[op[1]])
                if not compare(kind):
                    return out
                continue
            try:
                if kind == 'set':
                    v = build_value(op[2])
                    real[op[1]] = v
                    if frozen:
                        out.violate('frozen container accepted a set')
                        return out
                    m_set(op[1], v)
                elif kind == 'del':
                    had = op[1] in models[0].d
                    del real[op[1]]
                    if frozen:
                        out.violate('frozen container accepted a delete')
                        return out
                    if not had:
                        out.violate('deleting a missing key did not raise')
                        return out
                    for m in models:
                        m.delete(op[1])
                elif kind == 'merge':
                    other = {}
                    for k, spec in op[1]:
                        other[k] = build_value(spec)
                    src = other
                    if len(op) > 2 and op[2]:
                        # the source is itself an attribute container (as snapshot decorators return): same limit or not
                        src = BoundedAttributes(attributes=other, max_value_len=limit if op[2] == 1 else None)
                        other = dict(src._dict)
                    real.merge_in(src)
                    if frozen and other:
                        out.violate('frozen container accepted a merge')
                        return out
                    for k, v in other.items():
                        m_set(k, v)
                elif kind == 'copy':
                    c = real.copy()
                    if dict(c) != dict(real._dict):
                        out.violate('copy differs from the store')
                    c['zz_new'] = 1
                    if 'zz_new' in real._dict:
                        out.violate('copy aliases the store')
                elif kind == 'iter':
                    if list(real) != list(real._dict.keys()):
                        out.violate('iteration order differs from the store')
            except TypeError:
                if not frozen:
                    out.violate('set/delete raised TypeError on a container that is not frozen')
                    return out
                if (dict(real._dict), real.dropped) != before:
                    out.violate('frozen container changed although it raised')
                    return out
            except KeyError:
                if kind != 'del' or op[1] in models[0].d:
                    out.violate('unexpected KeyError in %s' % kind)
                    return out
            except BaseException as e:      # noqa
                out.violate('%s raised %s' % (kind, type(e).__name__))
                return out
            if not compare(kind):
                return out
        out.nontrivial = bool(out.classes & {'attrs_eviction', 'attrs_rejected'})
        return out

    # ---- (b) ---------------------------------------------------------------------------------------------
    def case_merge(self, r):
        out = Outcome()
        out.cls('merge')
        resources = []
        for i, x in enumerate(r['chain']):
            a = dict(x['attrs'])
            for j in range(x.get('bulk') or 0):
                a['bulk%d.%d' % (i % 2, j)] = 'v%d' % i
            if x.get('bulk'):
                out.cls('merge_many_attributes')
            resources.append(Resource(a, x['schema']))
        acc = resources[0]
        exp_attrs = dict(resources[0].attributes)
        exp_schema = resources[0].schema_url
        for nxt in resources[1:]:
            fa, fb = (dict(acc.attributes), acc.schema_url), (dict(nxt.attributes), nxt.schema_url)
            merged = acc.merge(nxt)
            if (dict(acc.attributes), acc.schema_url) != fa or (dict(nxt.attributes), nxt.schema_url) != fb:
                out.violate('merge modified one of its operands')
                return out
            conflict = exp_schema != '' and nxt.schema_url != '' and exp_schema != nxt.schema_url
            if conflict:
                out.cls('schema_conflict')
                if merged is not acc and (dict(merged.attributes), merged.schema_url) != fa:
                    out.violate('conflicting schema URLs: the left operand was not returned unchanged')
                    return out
            else:
                if any(k in exp_attrs and exp_attrs[k] != v for k, v in nxt.attributes.items()):
                    out.cls('merge_override')
                    out.nontrivial = True
                exp_attrs.update(dict(nxt.attributes))
                exp_schema = nxt.schema_url if exp_schema == '' else exp_schema
                if merged is acc or merged is nxt:
                    out.violate('merge returned one of its operands instead of a new resource')
                    return out
                if dict(merged.attributes) != exp_attrs:
                    out.violate('merged attributes are not left updated key by key by right',
                                {'expected': exp_attrs, 'got': dict(merged.attributes)})
                    return out
                if merged.schema_url != exp_schema:
                    out.violate('merged schema URL wrong', {'expected': exp_schema, 'got': merged.schema_url})
                    return out
            acc = merged
            try:
                acc.attributes['x'] = 1
                out.violate('resource attributes are not frozen')
                return out
            except TypeError:
                pass
        return out

    # ---- (c) ---------------------------------------------------------------------------------------------
    def case_create(self, r):
        out = Outcome()
        out.cls('create')
        os.environ.pop('DEEP_RESOURCE_ATTRIBUTES', None)
        os.environ.pop('DEEP_SERVICE_NAME', None)
        env = {}
        if r.get('env_bulk'):
            r = dict(r, env_attrs=','.join(([r['env_attrs']] if r['env_attrs'] else []) +
                                           ['many.e%d=env%d' % (j, j) for j in range(r['env_bulk'])]))
            out.cls('create_many_attributes')
        if r['env_attrs'] is not None:
            os.environ['DEEP_RESOURCE_ATTRIBUTES'] = r['env_attrs']
            out.cls('create_env')
            for item in r['env_attrs'].split(','):
                if '=' not in item:
                    continue
                k, v = item.split('=', 1)
                k, v = k.strip(), parse.unquote(v.strip())
                if k:
                    env[k] = v
        if r['env_service'] is not None:
            os.environ['DEEP_SERVICE_NAME'] = r['env_service']
            if r['env_service']:
                env['service.name'] = r['env_service']
        code = dict(r['code'])
        for j in range(r.get('code_bulk') or 0):
            code['many.c%d' % j] = 'code%d' % j
            out.cls('create_many_attributes')
        try:
            res = Resource.create(dict(code), r['schema'])
        except BaseException as e:      # noqa
            out.violate('Resource.create raised %s' % lab.exc_bucket(e), {'env': r['env_attrs']})
            return out
        a = dict(res.attributes)
        exp = {'telemetry.sdk.language': 'python', 'telemetry.sdk.name': 'deep'}
        exp.update(env)
        # an invalid value given in code (None, mixed sequence) is rejected: it must not displace what was there
        invalid = {k for k, v in code.items() if v is None or isinstance(v, list)}
        if invalid:
            out.cls('create_invalid_code_value')
        exp.update({k: v for k, v in code.items() if k not in invalid})
        for k in SDK_KEYS:
            if k not in a:
                out.violate('SDK identity key missing', {'key': k})
                return out
        if not a.get('service.name'):
            out.violate('resource without a service name', {'env': r['env_attrs'], 'code': code})
            return out
        for k, v in exp.items():
            if k == 'service.name' and not v:
                continue            # empty -> the fallback name applies
            if a.get(k) != v:
                src = 'code' if (k in code and k not in invalid) else 'environment' if k in env else 'built-in'
                out.violate('precedence built-in < environment < code violated (%s value lost)' % src,
                            {'key': k, 'expected': v, 'got': a.get(k)})
                return out
        if sum(1 for k in set(env) | set(code) if (k in env) + (k in code) + (k in exp and k.startswith('telemetry')) >= 2):
            out.nontrivial = True
        # the environment changes between two creates in one process (same attribute string, service name removed):
        # nothing of the first create may survive in the second
        if r['env_service']:
            os.environ.pop('DEEP_SERVICE_NAME', None)
            res2 = Resource.create({}, None)
            exp_name = env.get('service.name') if (r['env_attrs'] and 'service.name=' in r['env_attrs'].replace(' ', '')
                                                    and False) else None
            got = res2.attributes.get('service.name')
            env_attr_name = None
            if r['env_attrs']:
                for item in r['env_attrs'].split(','):
                    if '=' in item and item.split('=', 1)[0].strip() == 'service.name':
                        env_attr_name = parse.unquote(item.split('=', 1)[1].strip())
            if got == r['env_service'] and env_attr_name != r['env_service']:
                out.violate('a service name from an earlier create leaks into a later one after the variable was removed',
                            {'got': got})
        return out

    # ---- (d) ---------------------------------------------------------------------------------------------
    def case_start(self, r):
        out = Outcome()
        out.cls('start_plugins')
        os.environ.pop('DEEP_RESOURCE_ATTRIBUTES', None)
        os.environ.pop('DEEP_SERVICE_NAME', None)
        env = {}
        if r['env_attrs']:
            os.environ['DEEP_RESOURCE_ATTRIBUTES'] = r['env_attrs']
            env = dict(i.split('=') for i in r['env_attrs'].split(','))
        world = plugsynth.World()
        specs = []
        for i, p in enumerate(r['providers']):
            specs.append({'name': 'R%d' % i, 'roles': ['resource'], 'order': p['order'],
                          'attrs': {k: 'R%d' % i for k in p['keys']}, 'resource_none': p['kind'] == 'none',
                          'faults': {'resource': ['all', 'E']} if p['kind'] == 'raises' else {}})
        dotted, mname = plugsynth.make_module(world, specs)
        custom = {'PLUGIN_OTELPLUGIN': 'False', 'PLUGIN_PROMETHEUSPLUGIN': 'False', 'PLUGIN_OTELMETRICS': 'False',
                  'APP_ROOT': '/app', 'PLUGINS': dotted, 'POLL_TIMER': 1000, 'SERVICE_SECURE': 'False'}
        if not r['python_plugin']:
            custom['PLUGIN_PYTHONPLUGIN'] = 'False'
        cfg = ConfigService(custom, tracepoints=TracepointConfigService())
        d = Deep(cfg)
        d.task_handler._pool.shutdown(wait=False)
        d.task_handler._pool = lab.InlinePool()
        channel = lab.FakeChannel()
        lab.patch_grpc_start(d, channel)
        import sys
        import threading
        old = sys.gettrace(), threading.gettrace()
        try:
            try:
                d.start()
            except BaseException as e:      # noqa
                out.violate('start raised %s' % lab.exc_bucket(e))
                return out
            finally:
                sys.settrace(old[0])
                threading.settrace(old[1])
            exp = {'telemetry.sdk.language': 'python', 'telemetry.sdk.name': 'deep'}
            exp.update(env)
            order = sorted(range(len(specs)), key=lambda i: specs[i]['order'])
            defined = {}
            for i in order:
                p = r['providers'][i]
                if p['kind'] == 'ok':
                    for k in p['keys']:
                        defined[k] = defined.get(k, 0) + 1
                        exp[k] = 'R%d' % i
            if any(v >= 2 for v in defined.values()) or any(k in env for k in defined):
                out.nontrivial = True
            polls = channel.of('poll')
            if not polls:
                out.violate('no poll request at start')
                return out
            req = PollRequest.FromString(polls[0]['bytes'])
            wire = {kv.key: kv.value.string_value for kv in req.resource.attributes}
            for k, v in exp.items():
                if wire.get(k) != v:
                    out.violate('wire resource: later sources must override earlier ones key by key',
                                {'key': k, 'expected': v, 'got': wire.get(k)})
                    return out
            if not wire.get('service.name'):
                out.violate('wire resource without a service name')
            for k in SDK_KEYS:
                if k not in wire:
                    out.violate('wire resource without SDK identity key', {'key': k})
        finally:
            try:
                d.shutdown()
            except BaseException:      # noqa
                pass
            sys.settrace(old[0])
            threading.settrace(old[1])
            plugsynth.drop_module(mname)
        return out


PROP = C18()
