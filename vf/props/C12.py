"""C12 - installed tracepoints converge to the service's latest configuration.

Histories of poll responses (update / no-change / error / malformed / partly bad), register / unregister
calls and the execution of the background tasks that apply them - in any order two workers allow - against
a reference model; at quiescence the set of tracepoints that act (observed behaviourally) must be exactly the
latest configuration plus the live registrations, and the hash reported by the next poll must be the hash
of exactly that configuration.  A second mode runs the real poll timer against a failing service.
"""
import threading
import time

import grpc
from hypothesis import strategies as st

from vf import lab
from vf.core import Prop, Outcome, HarnessError, fd

from deep.grpc import GRPCService
from deep.poll import LongPoll
from deep.task import TaskHandler
from deepproto.proto.poll.v1.poll_pb2 import PollResponse, PollRequest, ResponseType
from deepproto.proto.tracepoint.v1.tracepoint_pb2 import TracePointConfig, Metric

POOL = [('c12_a.py', 4), ('c12_a.py', 8), ('c12_b.py', 4)]
ALWAYS = {'fire_count': '-1', 'fire_period': '0'}


class FakeRpcError(grpc.RpcError):
    pass


class World:
    def __init__(self, pool=None):
        self.script = []          # responses for the next polls
        self.requests = []
        self.cfg = lab.make_cfg({'APP_ROOT': '/app'})
        self.th = TaskHandler()
        if pool is not None:
            self.th._pool.shutdown(wait=False)
            self.th._pool = pool
        self.cfg.set_task_handler(self.th)
        self.push = lab.RecPush()
        from deep.processor.trigger_handler import TriggerHandler
        self.handler = TriggerHandler(self.cfg, self.push)
        self.channel = lab.FakeChannel(self.respond)
        self.grpc = GRPCService(self.cfg)
        self.grpc.channel = self.channel
        self.grpc._metadata = []
        self.poll = LongPoll(self.cfg, self.grpc)

    def respond(self, method, raw):
        self.requests.append(PollRequest.FromString(raw))
        if not self.script:
            return PollResponse(ts_nanos=1, current_hash='', response_type=ResponseType.NO_CHANGE)
        r = self.script.pop(0)
        return r

    def installed(self):
        """Behavioural reading: which tracepoint ids act at the pool locations."""
        ids = []
        for p, l in POOL:
            gen = lab.frame_at(p, l, 'target', {'v': 1})
            n0 = len(self.push.snapshots)
            self.handler.trace_call(gen.gi_frame, 'line', None)
            gen.close()
            # the marker travels as the first watch; a tracepoint that lost it acts under no recognisable identity
            ids += [(list(s.tracepoint.watches) + ['<no watch>'])[0].strip("'") for s in self.push.snapshots[n0:]]
        return sorted(ids)


def proto_tp(marker, loc, bad=None):
    args = dict(ALWAYS)
    if bad == 'stage':
        args['stage'] = 'bogus_stage'
    t = TracePointConfig(ID='svc-' + marker, path=POOL[loc][0], line_number=POOL[loc][1], args=args,
                         watches=[repr(marker)])
    if bad == 'metric':
        m = Metric(name='x')
        m.type = 9
        t.metrics.append(m)
    return t


class C12(Prop):
    id = 'C12'
    level = 'exploration'
    rule = ('history of poll responses (UPDATE with fresh hash and 0-4 tracepoints / NO_CHANGE / stub error / '
            'undecodable bytes / UPDATE with one uninterpretable member), register / unregister, and run-task steps that '
            'execute pending apply-tasks in any order two workers allow; a second mode runs the real poll timer against '
            'a scripted failing service; non-trivial = >= 2 UPDATEs whose apply tasks ran out of submission order, or an '
            'error/malformed poll between two UPDATEs; distinct = distinct recipe')
    assumptions = ['task-granular reordering: an apply task is started in submission order with at most two in flight, '
                   'and finishes in any order',
                   'convergence is only demanded at quiescence (no pending task)',
                   'installed set read behaviourally by one line hit per pool location',
                   'timer mode: bounded waits; a time-out is inconclusive (exit 2), never a violation']
    quick_examples = 2000
    thorough_examples = 8000
    floors = {'out_of_order_apply': 0.12, 'error_between_updates': 0.08, 'register': 0.15, 'timer': 0.015}

    def strategy(self, tier):
        tps = st.lists(st.integers(0, len(POOL) - 1), max_size=4)
        op = st.one_of(
            st.tuples(st.just('update'), tps), st.tuples(st.just('update'), tps),
            st.tuples(st.just('nochange')), st.tuples(st.just('error'), st.sampled_from(['rpc', 'exc'])),
            st.tuples(st.just('malformed')), st.tuples(st.just('malformed'), st.just('unknown_type')),
            st.tuples(st.just('partly_bad'), tps, st.sampled_from(['stage', 'metric']), st.integers(0, 4)),
            st.tuples(st.just('register'), st.integers(0, len(POOL) - 1)),
            st.tuples(st.just('unregister'), st.integers(0, 5)),
            st.tuples(st.just('run'), st.integers(0, 1)), st.tuples(st.just('run'), st.integers(0, 1)),
            st.tuples(st.just('run_nested'), st.integers(0, 1), tps),
            st.tuples(st.just('run_preempted'), st.integers(0, 1), st.one_of(st.none(), tps)),
            st.tuples(st.just('run_preempted'), st.integers(0, 1), st.one_of(st.none(), tps)),
            st.tuples(st.just('settle'), st.lists(st.integers(0, 1), max_size=6)))
        plain = st.lists(op, min_size=1, max_size=30 if tier == 'thorough' else 16)
        # class forcing: two updates whose apply tasks are run second-first
        forced = st.builds(lambda a, b, mid, tail: [('update', a)] + mid + [('update', b), ('run', 1), ('run', 0)] + tail,
                           tps, tps, st.lists(st.one_of(st.tuples(st.just('nochange')),
                                                        st.tuples(st.just('error'), st.just('exc')),
                                                        st.tuples(st.just('register'), st.integers(0, 2))), max_size=2),
                           st.lists(op, max_size=6))
        sim = st.one_of(plain, plain, forced).map(lambda ops: {'mode': 'sim', 'ops': [list(o) for o in ops]})
        timer = fd({'mode': st.just('timer'),
                                       'script': st.lists(st.sampled_from(['update', 'nochange', 'rpc', 'exc',
                                                                           'malformed']), min_size=2, max_size=6)})
        return st.one_of(sim, sim, sim, sim, sim, sim, sim, sim, timer)

    def run_case(self, recipe):
        lab.reset_world()
        try:
            if recipe['mode'] == 'timer':
                return self.case_timer(recipe)
            return self.case_sim(recipe)
        finally:
            lab.reset_world()

    def case_sim(self, recipe):
        out = Outcome()
        pool = lab.ManualPool()
        w = World(pool)
        from deep.config.tracepoint_config import ConfigUpdateListener

        class Pause(ConfigUpdateListener):
            action = None

            def config_change(self, ts, old_hash, current_hash, old_config, new_config):
                act, self.action = self.action, None
                if act is not None:
                    act()
        pause = Pause()
        w.cfg.tracepoints._listeners.insert(0, pause)
        latest, latest_hash = [], None
        known_hashes = {None, ''}
        custom = {}              # handle index -> (marker, handle)
        handles = []
        n_upd = 0
        applied_order = []
        err_since_update = False
        updates_seen = 0

        def pending():
            return pool.pending()

        def run(i):
            pend = pending()
            if not pend:
                return
            cand = pend[:2]
            f, fn, args, kw = cand[i % len(cand)]
            if cand.index((f, fn, args, kw)) == 1:
                out.cls('out_of_order_apply')
            pool.run(pool.pending().index((f, fn, args, kw)))

        def poll():
            # what the agent has recorded as its configuration (installed, or being installed by a task on its way) is
            # what it has to report - whatever the last answers of the service looked like
            recorded = w.cfg.tracepoints.current_hash or ''
            n_req = len(w.requests)
            try:
                w.poll.poll()
                return None
            except BaseException as e:      # noqa
                return e
            finally:
                if len(w.requests) > n_req and (w.requests[-1].current_hash or '') != recorded:
                    out.violate('poll reported a hash that is not the hash of the configuration the agent has recorded',
                                {'reported': w.requests[-1].current_hash, 'recorded': recorded})

        def do_update(kind, op):
            nonlocal n_upd, latest, latest_hash, err_since_update, updates_seen
            n_upd += 1
            h = 'H%d' % n_upd
            members = [('u%d_%d' % (n_upd, i), loc, None) for i, loc in enumerate(op[1])]
            if kind == 'partly_bad':
                pos = op[3] % (len(members) + 1)
                members.insert(pos, ('bad%d' % n_upd, 0, op[2]))
                out.cls('partly_bad')
            w.script = [PollResponse(ts_nanos=n_upd, current_hash=h, response_type=ResponseType.UPDATE,
                                     response=[proto_tp(m, loc, bad) for m, loc, bad in members])]
            e = poll()
            req = w.requests[-1]
            if (req.current_hash or None) not in known_hashes and req.current_hash not in known_hashes:
                out.violate('poll reported a hash the service never sent', {'hash': req.current_hash})
            if e is None:
                latest = [m for m, loc, bad in members if bad is None]
                latest_hash = h
                known_hashes.add(h)
                if updates_seen and err_since_update:
                    out.cls('error_between_updates')
                updates_seen += 1
                err_since_update = False
            else:
                if kind == 'update':
                    out.violate('poll raised on a well-formed UPDATE: %s' % lab.exc_bucket(e))
                # partly bad: rejected as a whole is accepted - then nothing may have changed
                if w.cfg.tracepoints.current_hash != latest_hash:
                    out.violate('rejected UPDATE changed the reported hash without installing its configuration',
                                {'hash': w.cfg.tracepoints.current_hash, 'model': latest_hash})

        ops = list(recipe['ops'])
        step = -1
        while ops:
            op = ops.pop(0)
            step += 1
            kind = op[0]
            if kind == 'run_nested':
                # the next poll response arrives while an apply task is between "handed the configuration to the
                # handler" and "finished" - the listener call is the yield point (it is a call-out of the task)
                if not pending():
                    continue
                out.cls('poll_during_apply_task')
                orig_new_config = w.handler.new_config
                fired = []

                def nested_new_config(cfg_, _op=op):
                    orig_new_config(cfg_)
                    if not fired:
                        fired.append(1)
                        w.handler.new_config = orig_new_config
                        ops.insert(0, ['update_now', _op[2]])
                        run_inline_update()
                w.handler.new_config = nested_new_config

                def run_inline_update():
                    nxt = ops.pop(0)
                    do_update('update', [None, nxt[1]])
                run(op[1])
                w.handler.new_config = orig_new_config
                kind = 'noop'
            if kind == 'run_preempted':
                # two workers: an apply task is suspended after it has started (at its first call-out, a listener that
                # is registered ahead of the handler's) while the other worker runs another apply task to completion
                pend = pending()
                if pend and (len(pend) >= 2 or op[2] is not None):
                    out.cls('apply_task_preempted_by_another')
                    first = pend[op[1] % min(2, len(pend))]
                    others = [t for t in pend[:2] if t is not first]
                    if pend.index(first) == 1:
                        out.cls('out_of_order_apply')

                    second = []

                    def other_worker(task):
                        # the other worker is a thread of its own: if the agent makes it wait for the suspended task,
                        # it waits (and the suspended task goes on) - the 20 ms only decide how long we watch it, the
                        # verdict is taken at quiescence
                        t_ = threading.Thread(target=lambda: pool.run(pool.pending().index(task)), name='c12-worker-2')
                        second.append(t_)
                        t_.start()
                        t_.join(0.02)
                        if t_.is_alive():
                            out.cls('second_worker_waits_for_the_first')

                    def preempt(_others=others, _op=op):
                        if _op[2] is not None:
                            # while the task is suspended the next poll response arrives, and its apply task is taken
                            # by the other worker
                            before = [t[0] for t in pool.pending()]
                            do_update('update', [None, _op[2]])
                            fresh = [t for t in pool.pending() if t[0] not in before]
                            if fresh:
                                other_worker(fresh[0])
                        elif _others:
                            still = [t for t in pool.pending() if t[0] is _others[0][0]]
                            if still:
                                other_worker(still[0])
                    pause.action = preempt
                    pool.run(pool.pending().index(first))
                    pause.action = None
                    for t_ in second:
                        t_.join(10)
                        if t_.is_alive():
                            raise HarnessError('second worker never finished')
                    kind = 'noop'
                else:
                    kind = 'run'
            if kind in ('update', 'partly_bad'):
                do_update(kind, op)
            if False:
                pass
            elif kind == 'nochange':
                before = (w.cfg.tracepoints.current_hash, len(pending()))
                # (a service that has nothing new may or may not repeat the hash in its answer)
                w.script = [PollResponse(ts_nanos=99, current_hash=(latest_hash or '') if step % 2 else '',
                                         response_type=ResponseType.NO_CHANGE)]
                e = poll()
                if e is not None:
                    out.violate('poll raised on NO_CHANGE: %s' % lab.exc_bucket(e))
                if (w.cfg.tracepoints.current_hash, len(pending())) != before:
                    out.violate('a NO_CHANGE answer altered the configuration state')
            elif kind in ('error', 'malformed'):
                before = (w.cfg.tracepoints.current_hash, len(pending()))
                if kind == 'error':
                    w.script = [FakeRpcError('unavailable') if op[1] == 'rpc' else RuntimeError('boom')]
                elif len(op) > 1 and op[1] == 'unknown_type':
                    # a well-formed message of a kind this client does not know (the response type is an open enum
                    # on the wire): neither an update nor "no change"
                    out.cls('response_of_an_unknown_type')
                    w.script = [PollResponse(ts_nanos=n_upd, current_hash='', response_type=7)]
                else:
                    w.script = [b'\xff\xff\xff\xff\x07garbage']
                e = poll()
                err_since_update = True
                if e is None and kind == 'error':
                    pass
                if (w.cfg.tracepoints.current_hash, len(pending())) != before:
                    out.violate('a failed / unintelligible poll altered the configuration state', {'kind': kind})
            elif kind == 'register':
                out.cls('register')
                marker = 'c%d' % len(handles)
                tp_id = w.cfg.tracepoints.add_custom(POOL[op[1]][0], POOL[op[1]][1], dict(ALWAYS), [repr(marker)], [])
                handles.append((tp_id, marker))
                custom[len(handles) - 1] = marker
            elif kind == 'unregister':
                if handles:
                    i = op[1] % len(handles)
                    w.cfg.tracepoints.remove_custom(handles[i][0])
                    custom.pop(i, None)
            elif kind == 'run':
                run(op[1])
            elif kind == 'settle':
                for i in op[1]:
                    run(i)
                while pending():
                    run(0)
            # ---- at quiescence: converged? ---------------------------------------------------------------
            if not pending():
                got = w.installed()
                exp = sorted(latest + list(custom.values()))
                if got != exp:
                    older = sorted(set(got) - set(exp))
                    what = 'an older configuration is installed' if any(g.startswith('u') for g in older) else \
                        'a removed registration still acts' if any(g.startswith('c') for g in older) else \
                        'part of the latest configuration is missing'
                    out.violate('at quiescence: %s' % what, {'step': step, 'expected': exp, 'installed': got,
                                                             'hash': w.cfg.tracepoints.current_hash})
                    break
                if w.cfg.tracepoints.current_hash != latest_hash:
                    out.violate('at quiescence: reported hash is not the hash of the installed configuration',
                                {'hash': w.cfg.tracepoints.current_hash, 'model': latest_hash})
                    break
        out.nontrivial = ('out_of_order_apply' in out.classes or 'apply_task_preempted_by_another' in out.classes) \
            and n_upd >= 2 or 'error_between_updates' in out.classes
        return out

    def case_timer(self, recipe):
        out = Outcome()
        out.cls('timer')
        out.nontrivial = True
        w = World(lab.InlinePool())
        n = [0]
        script = list(recipe['script'])

        def respond(method, raw):
            w.requests.append(PollRequest.FromString(raw))
            k = script.pop(0) if script else 'nochange'
            n[0] += 1
            if k == 'update':
                return PollResponse(ts_nanos=n[0], current_hash='T%d' % n[0], response_type=ResponseType.UPDATE,
                                    response=[proto_tp('t%d' % n[0], 0)])
            if k == 'rpc':
                return FakeRpcError('down')
            if k == 'exc':
                return RuntimeError('boom')
            if k == 'malformed':
                return b'\xff\xff\xff\xff\x07garbage'
            return PollResponse(ts_nanos=n[0], current_hash='', response_type=ResponseType.NO_CHANGE)
        w.channel.responder = respond
        w.cfg._ConfigService__custom['POLL_TIMER'] = 0.003
        try:
            w.poll.start()
        except BaseException as e:      # noqa
            out.violate('starting the poll raised %s' % lab.exc_bucket(e))
            return out
        try:
            want = len(recipe['script']) + 3
            deadline = time.time() + 5
            while len(w.requests) < want and time.time() < deadline and w.poll.timer.thread.is_alive():
                time.sleep(0.002)
            alive = w.poll.timer.thread.is_alive()
            if not alive:
                out.violate('the poll timer thread died after a failed poll (polling stopped)',
                            {'polls_seen': len(w.requests), 'script': recipe['script']})
            elif len(w.requests) < want:
                raise HarnessError('timer did not produce %d polls in 5 s (inconclusive)' % want)
        finally:
            try:
                w.poll.shutdown()
            except BaseException:      # noqa
                pass
        return out


PROP = C12()
