"""C07 - the snapshot's variable table is closed and de-duplicated by object identity.

Aliasing-heavy object graphs are bound to the locals of a real running frame (inner function called from an
outer one, called from module level - so all_frame reaches a module frame whose f_locals is the globals()
dict that an inner local also holds).  Watches name values already in the frame (`locals()`, `globals()`,
an element, the same list twice); a log-only action may run before the snapshot action; the variable
budget may cut the graph anywhere.  Oracle: closure of every reference (Python object and wire message),
object<->id bijection found by a joint walk over names, no repetition.
"""
import sys

from hypothesis import strategies as st

from vf import lab, values, oracle
from vf.core import Prop, Outcome, fd

from deep.api.tracepoint.trigger import Trigger, LineLocation, LocationAction, Location
from deep.push import convert_snapshot

PATH = '/app/pkg/c07_mod.py'
SRC = '''G1 = V[0]
G2 = [V[0], V[1 % len(V)]]
def inner(a, b, c, g):
    d = [a, b, a]
    e = {'a': a, 'd': d}
    HIT()
    return d
def outer(x, y, z):
    w = (x, y)
    return inner(x, y, z, globals())
RES = outer(V[I0], V[I1], V[I2])
'''
HIT_LINE = 6
SRC_ME = SRC.replace("    e = {'a': a, 'd': d}\n", "    e = {'a': a, 'd': d}\n    me = locals()\n")
HIT_LINE_ME = 7
SRC_RET = SRC.replace("    return d\n", "    return DONE(d)\n")
SRC_ME_RET = SRC_ME.replace("    return d\n", "    return DONE(d)\n")
_codes = {}
LIMITS = oracle.Limits()


def code_for(me, ret, fresh=False, ns_child=False):
    key = (me, ret, fresh, ns_child)
    if key not in _codes:
        src = {(False, False): SRC, (True, False): SRC_ME, (False, True): SRC_RET, (True, True): SRC_ME_RET}[key[:2]]
        if fresh:
            # the function returns an object made after the line was reached (and after the temporaries that the
            # watches of that line produced were dropped) - and after a local that was collected at the line has been
            # emptied in place by the function itself (what it held is garbage before the function returns)
            src = src.replace("    HIT()\n", "    t1 = [[a, 1], [b, 2], BIG + 7]\n    t2 = {'k': [a]}\n    HIT()\n"
                                            "    t1.clear(); t2.clear()\n")
            src = src.replace("return DONE(d)", "return DONE(%s)" % {'list': '[a, b]', 'bigint': 'BIG + 3'}[fresh])
        if ns_child:
            # the module's namespace (the locals of the module frame) is only referred to one level down, as an element
            # of a local - not by a frame variable itself
            src = src.replace("inner(x, y, z, globals())", "inner(x, y, z, [globals()])")
            assert '[globals()]' in src
        _codes[key] = compile(src, PATH, 'exec')
    return _codes[key]
# BIG + k: a fresh object of an uncommon size - once dropped, the next object of that size takes over its address
# NEST: a structure of several hundred nodes that only a watch reaches, then watches on parts of it
WATCHES = ['locals()', 'globals()', 'a', 'd', 'd[0]', '[a]', 'g', 'e["d"]', 'G2', 'b', 'BIG + 1', 'BIG + 2',
           'NEST.v', 'NEST.v[0][0]', 'NEST.v[9]']
_code = compile(SRC, PATH, 'exec')


class Holder:
    """Keeps a large structure out of the module namespace walk (no attribute dictionary): only a watch reaches it."""
    __slots__ = ('v',)

    def __init__(self, v):
        self.v = v


OUTER_SRC = '''def target(a, b):
    d = [a, b, a]
    e = {'a': a, 'd': d}
    me = locals()
    yield
'''
_outer_code = compile(OUTER_SRC, PATH, 'exec')


def joint_walk(snap, roots):
    """roots: list of (VariableId, live object). -> list of (vid, obj) pairs over every path followed by name."""
    pairs = []
    seen = set()
    todo = list(roots)
    while todo:
        vref, obj = todo.pop()
        key = (vref.vid, id(obj))
        if key in seen:
            continue
        seen.add(key)
        pairs.append((vref.vid, obj))
        var = snap.var_lookup.get(vref.vid)
        if var is None or not oracle.is_friendly(obj):
            continue
        kids = oracle.children_of(obj)
        if kids in (None, 'unordered'):
            continue
        by = {}
        for names, c in kids:
            for nm in names:
                by[nm] = c
        for c in var.children:
            if c.name in by:
                todo.append((c, by[c.name]))
    return pairs


def reachable(objs):
    seen = {}
    todo = list(objs)
    while todo:
        o = todo.pop()
        if id(o) in seen:
            continue
        seen[id(o)] = o
        kids = oracle.children_of(o) if oracle.is_friendly(o) else None
        if kids is None:
            try:
                d = object.__getattribute__(o, '__dict__')
            except BaseException:      # noqa - no attribute dictionary (or a hostile one)
                d = None
            kids = [(None, v) for v in d.values()] if type(d) is dict else []
        if kids == 'unordered':
            kids = [(None, c) for c in o]
        for _, c in kids:
            todo.append(c)
    return seen


DETAIL = {}


def closure(snap):
    for fi, f in enumerate(snap.frames):
        for v in f.variables:
            if v.vid not in snap.var_lookup:
                DETAIL['last'] = {'frame': fi, 'file': f.file_name[-40:], 'func': f.method_name, 'var': v.name,
                                  'vid': v.vid, 'nvars': len(f.variables), 'table': len(snap.var_lookup)}
                return 'frame %s variable' % ('0' if fi == 0 else 'n')
    for k, var in snap.var_lookup.items():
        for c in var.children:
            if c.vid not in snap.var_lookup:
                return 'child'
    for w in snap.watches:
        if w.result is not None and w.result.vid not in snap.var_lookup:
            return 'watch result (%s source, expression %s)' % (w.source, w.expression)
    return None


def closure_wire(msg):
    for f in msg.frames:
        for v in f.variables:
            if v.ID not in msg.var_lookup:
                return 'frame variable'
    for k, var in msg.var_lookup.items():
        for c in var.children:
            if c.ID not in msg.var_lookup:
                return 'child'
    for w in msg.watches:
        if w.HasField('good_result') and w.good_result.ID not in msg.var_lookup:
            return 'watch result'
    return None


class C07(Prop):
    id = 'C07'
    level = 'exploration'
    rule = ('aliasing-heavy friendly object graph bound to the locals of inner()/outer()/module frames x watches on '
            'values already in the frame (locals(), globals(), elements, repeated) x action list (log-only before '
            'snapshot, two snapshots, snapshot+log) x frame_type x variable budget; non-trivial = >= 1 aliased object '
            'or cycle among the frame\'s values and >= 1 snapshot; distinct = distinct recipe')
    assumptions = ['identity claims are made only about objects kept alive by the frame (temporaries created by watch '
                   'expressions are checked for closure only)',
                   'interned ints/strings are real sharing and treated as one object']
    quick_examples = 1000
    thorough_examples = 5000
    fuzz_runs = 6000
    floors = {'budget_cut': 0.1, 'watch_on_framed_value': 0.2, 'log_before_snapshot': 0.035, 'all_frame': 0.15,
              'two_snapshots': 0.15, 'frame_holds_its_own_locals': 0.2, 'deferred_capture': 0.2}

    def strategy(self, tier):
        big = tier == 'thorough'
        return fd({
            # mostly friendly data (identity claims are made about it), with members whose str / len / attribute
            # access raises (Exception or BaseException): a walk that one of them cuts short must leave no reference
            # to an entry that never made it into the table
            'values': values.value_recipes(values.FRIENDLY * 4 + values.HOSTILE_KINDS, min_nodes=3,
                                           max_nodes=14 if big else 9, max_items=5, str_keys_only=True),
            'idx': st.lists(st.integers(0, 13), min_size=3, max_size=3),
            'watches': st.one_of(st.lists(st.sampled_from(WATCHES), max_size=3),
                                st.lists(st.sampled_from(WATCHES), max_size=3),
                                st.lists(st.sampled_from(WATCHES), max_size=3),
                                # a large structure and parts of it, in any order
                                st.lists(st.sampled_from(['NEST.v', 'NEST.v[0][0]', 'NEST.v[9]', 'NEST.v[0]', 'a']),
                                         min_size=2, max_size=3)),
            'actions': st.lists(st.sampled_from(['snapshot', 'log', 'snapshot', 'snapshot+log']), min_size=1, max_size=3),
            'frame_type': st.sampled_from(['single_frame', 'all_frame', 'all_frame']),
            'stack_type': st.sampled_from([None, None, 'no_stack', 'stack', 'no_stack']),
            # unlimited in practice, cut inside the frame's own variables, or cut somewhere inside the watches
            'max_variables': st.one_of(st.just(1000), st.integers(1, 14), st.sampled_from([60, 150, 200, 230, 260, 300, 350, 420, 500])),
            # class-forcing: the budget runs out somewhere inside a watch on a large structure, and a later watch
            # reaches a part of that structure
            'cut_in_watch': st.one_of(st.none(), st.none(), st.none(), st.tuples(
                st.sampled_from([['NEST.v', 'NEST.v[9]'], ['NEST.v', 'NEST.v[0][0]'], ['NEST.v', 'NEST.v[0]'],
                                 ['NEST.v[0]', 'NEST.v[0][0]'], ['NEST.v', 'a', 'NEST.v[9]']]),
                st.sampled_from([60, 150, 200, 230, 260, 300, 350, 420, 500])).map(list)),
            'me': st.booleans(),
            'ns_child': st.sampled_from([False, False, True]),
            'capture': st.booleans(),
            # the paused frame is the outermost one (nothing below it) and holds its own locals() in a local
            'outermost': st.sampled_from([False, False, False, True]),
            'ret_fresh': st.sampled_from([None, 'list', 'bigint']),
        })

    def case_outermost(self, recipe, out, vals, i0, i1, actions, n_snap):
        out.cls('outermost_frame_holds_its_locals')
        out.nontrivial = n_snap >= 1
        trig = Trigger(LineLocation('c07_mod.py', 5, Location.Position.START), actions)
        handler, _, push = lab.make_handler([trig], plugins=[lab.RecLogger()])
        ns = {'__name__': 'c07_mod'}
        exec(_outer_code, ns)
        gen = ns['target'](vals[i0], vals[i1])
        next(gen)
        try:
            handler.trace_call(gen.gi_frame, 'line', None)
        except BaseException as e:      # noqa
            out.violate('trace_call raised %s' % lab.exc_bucket(e))
        finally:
            gen.close()
        if len(push.snapshots) != n_snap:
            out.violate('snapshot count wrong [%s]' % ','.join(sorted(set(lab.LOGS.errors())))[:120])
        for snap in push.snapshots:
            c = closure(snap)
            if c and not ('WATCH source, expression locals()' in c):
                out.violate('dangling reference: %s' % c, DETAIL.get('last'))
            elif c:
                out.violate('dangling reference: %s' % c)
        lab.reset_world()
        return out

    def run_case(self, recipe):
        out = Outcome()
        lab.reset_world()
        if recipe.get('cut_in_watch'):
            recipe = dict(recipe, watches=list(recipe['cut_in_watch'][0]), max_variables=recipe['cut_in_watch'][1])
            out.cls('budget_ends_inside_a_watch_on_a_large_structure')
        vals = values.build(recipe['values'])
        n = len(vals)
        i0, i1, i2 = [i % n for i in recipe['idx']]
        actions = []
        n_snap = 0
        me = bool(recipe.get('me'))
        capture = bool(recipe.get('capture'))
        if me:
            out.cls('frame_holds_its_own_locals')
        if recipe.get('ns_child'):
            out.cls('namespace_only_as_child')
        if capture:
            out.cls('deferred_capture')
        for i, a in enumerate(recipe['actions']):
            cfg = {'fire_count': '-1', 'fire_period': '0', 'frame_type': recipe['frame_type']}
            if recipe.get('stack_type'):
                cfg['stack_type'] = recipe['stack_type']
                out.cls('stack_type_given')
            if recipe['max_variables'] < 1000:
                cfg['MAX_VARIABLES'] = recipe['max_variables']     # int: only reachable by direct construction
            if a == 'log':
                cfg['log_msg'] = 'a={a} d={d}'
                actions.append(LocationAction('tp%d' % i, None, cfg, LocationAction.ActionType.Log))
            else:
                cfg['watches'] = list(recipe['watches'])
                if a == 'snapshot+log':
                    cfg['log_msg'] = 'a={a} e={e}'
                if capture:
                    cfg['stage'] = 'line_capture'      # deferred: completed (and the returned value captured) later
                actions.append(LocationAction('tp%d' % i, None, cfg, LocationAction.ActionType.Snapshot))
                n_snap += 1
        hit_line = (HIT_LINE_ME if me else HIT_LINE) + (2 if recipe.get('ret_fresh') else 0)
        trig = Trigger(LineLocation('c07_mod.py', hit_line, Location.Position.START), actions)
        handler, _, push = lab.make_handler([trig], plugins=[lab.RecLogger()])
        if recipe.get('outermost') and not capture:
            return self.case_outermost(recipe, out, vals, i0, i1, actions, n_snap)
        readings = []

        def HIT():
            fr = sys._getframe(1)
            chain = []
            f = fr
            while f is not None and f.f_code.co_filename == PATH:
                chain.append(dict(f.f_locals))
                f = f.f_back
            readings.append(chain)
            try:
                handler.trace_call(fr, 'line', None)
            except BaseException as e:      # noqa
                out.violate('trace_call raised %s' % lab.exc_bucket(e))

        returned = []

        def DONE(v):
            returned.append(v)
            try:
                handler.trace_call(sys._getframe(1), 'return', v)
            except BaseException as e:      # noqa
                out.violate('trace_call raised %s' % lab.exc_bucket(e))
            return v

        ns = {'NEST': Holder([[[i, j, 'x%d' % j] for j in range(10)] for i in range(10)]), 'BIG': 1 << 3000, 'V': vals, 'I0': i0, 'I1': i1, 'I2': i2, 'HIT': HIT, 'DONE': DONE, '__name__': 'c07_mod'}
        import threading
        t = threading.Thread(target=exec, args=(code_for(me, capture, recipe.get('ret_fresh') or False, bool(recipe.get('ns_child'))), ns), name='c07-prog')   # small, engine-free stack below
        t.start()
        t.join()
        if not readings:
            raise lab.HarnessError('C07 program did not reach HIT')
        chain = readings[0]
        # ---- classes -------------------------------------------------------------------------------
        if recipe['max_variables'] < 1000:
            out.cls('budget_cut')
        if any(w in ('locals()', 'globals()', 'a', 'd', 'd[0]', 'g', 'e["d"]', 'G2', 'b') for w in recipe['watches']):
            out.cls('watch_on_framed_value')
        acts = recipe['actions']
        if 'log' in acts and any(a.startswith('snapshot') for a in acts[acts.index('log'):]):
            out.cls('log_before_snapshot')
        if recipe['frame_type'] == 'all_frame':
            out.cls('all_frame')
        if n_snap >= 2:
            out.cls('two_snapshots')
        out.nontrivial = n_snap >= 1       # the template always aliases a (d = [a, b, a]; e['a'] is a; e['d'] is d)
        if len(push.snapshots) != n_snap:
            out.violate('snapshot count wrong [%s]' % ','.join(sorted(set(lab.LOGS.errors())))[:120],
                        {'expected': n_snap, 'got': len(push.snapshots)})
        for snap in push.snapshots:
            # ---- closure -------------------------------------------------------------------------------
            c = closure(snap)
            if c:
                out.violate('dangling reference: %s' % c, DETAIL.get('last'))
                continue
            msg = convert_snapshot(snap) if recipe['max_variables'] >= 1000 else False
            if msg is False:
                pass        # an int-valued limit in the action config cannot travel in the args map<string,string>
            elif msg is None:
                out.violate('snapshot not convertible')
            else:
                cw = closure_wire(msg)
                if cw:
                    out.violate('dangling reference on the wire: %s' % cw)
            # ---- bijection -----------------------------------------------------------------------------
            roots = []
            nframes = len(chain) if recipe['frame_type'] == 'all_frame' else 1
            app_frames = [f for f in snap.frames if f.file_name == PATH]
            for fi in range(min(nframes, len(app_frames))):
                for v in app_frames[fi].variables:
                    if v.name in chain[fi]:
                        roots.append((v, chain[fi][v.name]))
            top = chain[0]
            for w in snap.watches:
                if w.source == 'WATCH' and w.result is not None and w.expression in ('a', 'd', 'g', 'b'):
                    roots.append((w.result, top[w.expression]))
                if w.source == 'WATCH' and w.result is not None and w.expression == 'd[0]':
                    roots.append((w.result, top['d'][0]))
                if w.source == 'WATCH' and w.result is not None and w.expression == 'e["d"]':
                    roots.append((w.result, top['e']['d']))
                if w.source == 'CAPTURE' and w.result is not None and returned:
                    roots.append((w.result, returned[0]))
                    # the entry the captured value points at must describe that value (not an object that happened to
                    # live at the same address earlier)
                    try:
                        oracle.compare_var(snap.var_lookup, w.result.vid, returned[0], LIMITS, ['return'], 1, True)
                    except oracle.Mismatch as m:
                        out.violate('captured return value resolves to an entry describing another object (%s)' % m.kind,
                                    {'path': m.path, 'detail': m.detail})
            if capture and not any(w.source == 'CAPTURE' for w in snap.watches):
                out.violate('deferred snapshot delivered without the captured return value')
            pairs = joint_walk(snap, roots)
            obj_to_vid = {}
            vid_to_obj = {}
            bad = None
            for vid, obj in pairs:
                if type(obj) in (int, str, float, bool, type(None)) and False:
                    continue
                o = obj_to_vid.setdefault(id(obj), vid)
                if o != vid:
                    bad = ('one object recorded under two ids', {'type': type(obj).__name__, 'ids': [o, vid]})
                    break
                p = vid_to_obj.setdefault(vid, obj)
                if p is not obj:
                    bad = ('two different objects share one id', {'types': [type(p).__name__, type(obj).__name__],
                                                                 'id': vid})
                    break
            if bad:
                out.violate(bad[0], bad[1])
            # ---- no repetition -------------------------------------------------------------------------
            live = []
            for fi in range(min(nframes, len(chain))):
                live.extend(chain[fi].values())
            if recipe['frame_type'] == 'all_frame':
                pass
            n_reach = len(reachable(live))
            temporaries = 0
            for w in snap.watches:
                temporaries += 12           # generous: a watch/log temporary is a small fresh structure
            if recipe['frame_type'] != 'all_frame' and len(snap.var_lookup) > n_reach + temporaries:
                out.violate('table larger than the number of distinct reachable objects (repetition)',
                            {'table': len(snap.var_lookup), 'reachable': n_reach})
        lab.reset_world()
        return out


PROP = C07()
