"""C14 - lifecycle: hooks installed once, restored exactly; shutdown always completes.

Histories of start / shutdown calls on a real Deep (fake channel), with generated pre-existing trace hooks
(sys and threading), tracing enabled or disabled, synthetic plugins, pending sends that fail, and plugin
shutdowns that raise.  A program thread started while the agent runs is parked before a tracepoint line and
released after shutdown: it must cause no action.
"""
import sys
import threading
import time

from hypothesis import strategies as st

from vf import lab, plugsynth
from vf.core import Prop, Outcome, HarnessError, fd

from deep.api.deep import Deep
from deepproto.proto.poll.v1.poll_pb2 import PollResponse, ResponseType
from deepproto.proto.tracepoint.v1.tracepoint_pb2 import TracePointConfig, SnapshotResponse, Snapshot

HOST_PATH = '/app/c14_host.py'
HOST_SRC = '''def work(gate, reached):
    reached.set()
    gate.wait(20)
    x = 41
    x = x + 1
    return x
'''
TP_LINE = 5
_host_code = compile(HOST_SRC, HOST_PATH, 'exec')
BUILTIN_OFF = {'PLUGIN_OTELPLUGIN': 'False', 'PLUGIN_PROMETHEUSPLUGIN': 'False', 'PLUGIN_OTELMETRICS': 'False'}


def pre_sys_hook(frame, event, arg):
    return None


def pre_thread_hook(frame, event, arg):
    return None


class C14(Prop):
    id = 'C14'
    level = 'exploration'
    rule = ('history of start/shutdown calls (any order and multiplicity) x pre-existing sys/threading trace hooks (none, '
            'either, both, same function) x NO_TRACE (unset, True, "True") x synthetic plugins (order, raising '
            'shutdown) x failing / slow pending sends at shutdown x a parked program thread released after shutdown; '
            'non-trivial = a shutdown with >= 1 injected failure, or a pre-existing hook, or NO_TRACE; distinct = '
            'distinct recipe')
    assumptions = ['all lifecycle calls come from one harness thread (sys.settrace is per thread)',
                   'restarting an agent that was shut down is generated only when the service answers "no change" (a '
                   'restart that has to submit work finds the task handler closed for good; the statement does not define it)',
                   'hooks are compared by identity / bound-method equality',
                   'the poll timer interval is long (no tick during a case); polls are counted at the fake channel']
    quick_examples = 600
    thorough_examples = 1200
    floors = {'shutdown_with_failure': 0.1, 'pre_existing_hook': 0.3, 'no_trace': 0.15, 'parked_thread': 0.08,
              'poll_in_flight_at_shutdown': 0.01}

    def strategy(self, tier):
        plugin = fd({'roles': st.lists(st.sampled_from(['decorator', 'logger', 'resource', 'metric']),
                                                          min_size=1, max_size=2, unique=True),
                                        'order': st.integers(-1, 3),
                                        'shutdown_fault': st.sampled_from([None, None, 'E', 'B', None, 'leave'])})
        return fd({
            'pre': st.sampled_from(['none', 'sys', 'threading', 'both', 'same']),
            'no_trace': st.sampled_from([None, None, True, 'True', 'false', '0', 'no', False, '']),
            'parked_kind': st.sampled_from(['log', 'capture']),
            'plugins': st.lists(plugin, max_size=4),
            'ops': st.lists(st.sampled_from(['start', 'start', 'shutdown', 'shutdown', 'hit']), min_size=1, max_size=7),
            'sends': st.lists(st.sampled_from(['ok', 'fail', 'convert_fail']), max_size=3),
            'parked': st.sampled_from([True, True, False]),
            'step_fault': st.sampled_from([None, None, None, 'flush', 'poll']),
            'poll': st.sampled_from(['update', 'update', 'nochange']),
            # shutdown is called while a timer-driven poll is waiting for a slow service
            'inflight': st.sampled_from([False] * 24 + [True]),
            'shutdown_on': st.sampled_from(['same', 'same', 'same', 'older_thread']),
            'slow_send': st.sampled_from([False, False, False, True]),
            'bystander': st.sampled_from([False, False, True]),
            'poll_timer': st.sampled_from(['ok'] * 9 + ['bad', 'zero', 'huge']),
        })

    def case_inflight(self, recipe):
        out = Outcome()
        out.cls('poll_in_flight_at_shutdown')
        out.nontrivial = True
        hold, inflight, done = threading.Event(), threading.Event(), threading.Event()
        polls = []

        def responder(method, raw):
            if method.endswith('poll'):
                polls.append(threading.current_thread().name)
                if len(polls) >= 2:
                    inflight.set()
                    hold.wait(20)       # the service is slow: the answer comes when the harness says so
                if recipe.get('poll') == 'nochange' or len(polls) < 2:
                    return PollResponse(ts_nanos=1, current_hash='', response_type=ResponseType.NO_CHANGE)
                return PollResponse(ts_nanos=2, current_hash='H2', response_type=ResponseType.UPDATE, response=[
                    TracePointConfig(ID='tp-late', path='c14_host.py', line_number=TP_LINE,
                                     args={'fire_count': '-1', 'fire_period': '0', 'log_msg': 'x={x}'}, watches=[])])
            return SnapshotResponse()

        from deep.config import ConfigService
        from deep.config.tracepoint_config import TracepointConfigService
        custom = dict(BUILTIN_OFF, APP_ROOT='/app', PLUGINS=[], POLL_TIMER=0.05, SERVICE_SECURE='False', NO_TRACE=True)
        d = Deep(ConfigService(custom, tracepoints=TracepointConfigService()))
        lab.patch_grpc_start(d, lab.FakeChannel(responder))
        timer = None
        try:
            d.start()
            timer = d.poll.timer
            if not inflight.wait(10):
                raise HarnessError('the timer never polled')
            exc = []

            def shut():
                try:
                    d.shutdown()
                except BaseException as e:      # noqa
                    exc.append(e)
                finally:
                    done.set()
            t = threading.Thread(target=shut, name='c14-shutdown')
            t.start()
            # shutdown may take as long as the poll does; what it must not do is return with the poll thread alive.
            # The wait only decides how long a premature return is given to show itself, never the verdict.
            returned = done.wait(0.3)
            alive = timer.thread.is_alive()
            if returned and alive:
                out.violate('after shutdown: the poll timer is still running (a poll was in flight)')
            hold.set()
            t.join(20)
            timer.thread.join(20)
            if t.is_alive() or timer.thread.is_alive():
                raise HarnessError('shutdown / poll thread did not finish')
            if exc:
                out.violate('shutdown raised %s' % lab.exc_bucket(exc[0]))
        finally:
            hold.set()
            if timer is not None:
                timer.event.set()
            try:
                d.task_handler._pool.shutdown(wait=False)
            except BaseException:      # noqa
                pass
            lab.reset_world()
        return out

    def run_case(self, recipe):
        if recipe.get('inflight'):
            return self.case_inflight(recipe)
        out = Outcome()
        lab.reset_world()
        old_sys, old_thr = sys.gettrace(), threading.gettrace()
        world = plugsynth.World()
        specs = []
        for i, p in enumerate(recipe['plugins']):
            f = p['shutdown_fault']
            specs.append({'name': 'P%d' % i, 'roles': p['roles'], 'order': p['order'],
                          'leaves_on_shutdown': f == 'leave',
                          'faults': {'shutdown': ['all', f]} if f in ('E', 'B') else {}})
            if f == 'leave':
                out.cls('plugin_leaves_the_list_on_shutdown')
        dotted, mname = plugsynth.make_module(world, specs)
        custom = dict(BUILTIN_OFF, APP_ROOT='/app', PLUGINS=dotted, POLL_TIMER=1000, SERVICE_SECURE='False')
        if recipe.get('poll_timer') == 'bad':
            custom['POLL_TIMER'] = '10s'          # text that is not a number of seconds
        if recipe.get('poll_timer') in ('zero', 'huge'):
            # numbers no timer can wait for: whatever becomes of the polling, the agent can still be shut down. The
            # shutdown is made by another thread, so that one that does not return can be told
            custom['POLL_TIMER'] = {'zero': 0, 'huge': 1e10}[recipe['poll_timer']]
            recipe = dict(recipe, shutdown_on='older_thread')
            out.cls('poll_timer_no_timer_can_wait_for')
        if recipe['no_trace'] is not None:
            custom['NO_TRACE'] = recipe['no_trace']
            out.cls('no_trace' if recipe['no_trace'] in (True, 'True') else 'no_trace_ambiguous_text')
            out.nontrivial = True
        pre = recipe['pre']
        pre_sys = pre_sys_hook if pre in ('sys', 'both', 'same') else None
        pre_thr = pre_thread_hook if pre in ('threading', 'both') else (pre_sys_hook if pre == 'same' else None)
        if pre != 'none':
            out.cls('pre_existing_hook')
            out.nontrivial = True
        send_outcomes = list(recipe['sends'])
        sent = []
        accepted = [0]

        def responder(method, raw):
            if method.endswith('poll') and recipe.get('poll') == 'nochange':
                return PollResponse(ts_nanos=1, current_hash='', response_type=ResponseType.NO_CHANGE)
            if method.endswith('poll'):
                return PollResponse(ts_nanos=1, current_hash='H1', response_type=ResponseType.UPDATE, response=[
                    TracePointConfig(ID='tp-life', path='c14_host.py', line_number=TP_LINE,
                                     args={'fire_count': '-1', 'fire_period': '0', 'log_msg': 'x={x}'}, watches=[])])
            o = send_outcomes.pop(0) if send_outcomes else 'ok'
            if recipe.get('slow_send'):
                time.sleep(0.1)         # the collector takes a moment: delivery is still under way when shutdown starts
            sent.append(o)
            if o == 'fail':
                return RuntimeError('send failed')
            return SnapshotResponse()

        from deep.config import ConfigService
        from deep.config.tracepoint_config import TracepointConfigService
        cfg = ConfigService(custom, tracepoints=TracepointConfigService())
        d = Deep(cfg)
        channel = lab.FakeChannel(responder)
        lab.patch_grpc_start(d, channel)
        push_attempts = []
        real_push = d.push

        class SpyPush:
            """Every hand-over of a snapshot for delivery is an action of the agent, whether or not it gets through."""

            def push_snapshot(self, snapshot):
                push_attempts.append(threading.current_thread().name)
                return real_push.push_snapshot(snapshot)
        d.trigger_handler._push_service = SpyPush()
        gate, reached = threading.Event(), threading.Event()
        worker = [None]
        started_model = False
        ever_started = False
        tracing_on = False
        timers = []
        hung = []
        # a thread of the application that was running before the agent started and has a trace function of its own (a
        # debugger, a coverage tool): neither start nor shutdown has any business with it
        by_ask, by_answer, bystander = None, [], None
        if recipe.get('bystander'):
            import queue as _q
            by_ask = _q.Queue()
            out.cls('bystander_thread_with_its_own_trace_function')

            def own_trace(frame, event, arg):
                return None

            def by_main():
                sys.settrace(own_trace)
                while True:
                    cmd = by_ask.get()
                    if cmd is None:
                        sys.settrace(None)
                        return
                    by_answer.append(sys.gettrace())
                    cmd.set()
            bystander = threading.Thread(target=by_main, name='c14-bystander', daemon=True)
            bystander.start()

        def bystander_ok(when):
            if bystander is None:
                return True
            ev = threading.Event()
            by_ask.put(ev)
            if not ev.wait(10):
                raise HarnessError('bystander thread does not answer')
            got = by_answer[-1]
            if getattr(got, '__name__', None) != 'own_trace':
                out.violate('%s: a thread that was running before the agent started lost its own trace function' % when,
                            {'now': getattr(got, '__qualname__', repr(got))[:60]})
                return False
            return True
        older = None
        if recipe.get('shutdown_on') == 'older_thread':
            import queue
            older_jobs, older_done = queue.Queue(), threading.Event()

            def older_main():
                while True:
                    job = older_jobs.get()
                    if job is None:
                        return
                    job()
                    older_done.set()
            older = threading.Thread(target=older_main, name='c14-older-thread', daemon=True)
            older.start()
        try:
            sys.settrace(pre_sys)
            threading.settrace(pre_thr)
            shut_once = False
            resume_sys = [None]
            for op in recipe['ops']:
                if op == 'start' and shut_once:
                    out.cls('restart')
                    timers[:] = []
                if op == 'start':
                    if resume_sys[0] is not None:
                        # the application thread goes on exactly as the earlier shutdown (by another thread) left it
                        sys.settrace(resume_sys[0])
                        resume_sys[0] = None
                    n_polls = len(channel.of('poll'))
                    n_inst = len(world.instances)
                    try:
                        d.start()
                    except BaseException as e:      # noqa
                        cur, cur_thr = sys.gettrace(), threading.gettrace()
                        sys.settrace(pre_sys)
                        if recipe.get('poll_timer') == 'bad' and isinstance(e, ValueError):
                            # a setting that cannot be used makes start fail visibly - then nothing of the agent may
                            # stay behind: shutdown has nothing to undo for an agent that never started
                            out.cls('start_fails_part_way')
                            if cur is not pre_sys or cur_thr is not pre_thr:
                                threading.settrace(pre_thr)
                                out.violate('a start that failed part way left the agent\'s trace hooks installed')
                            if d.poll.timer is not None and d.poll.timer.thread.is_alive():
                                out.violate('a start that failed part way left the poll timer running')
                            break
                        out.violate('start raised %s' % lab.exc_bucket(e))
                        break
                    cur_sys, cur_thr = sys.gettrace(), threading.gettrace()
                    sys.settrace(pre_sys)       # keep the harness itself out of the agent while we look
                    if not bystander_ok('after start'):
                        break
                    if d.poll.timer is not None and d.poll.timer not in timers:
                        timers.append(d.poll.timer)
                    if started_model:
                        if len(channel.of('poll')) != n_polls or len(world.instances) != n_inst or len(timers) > 1:
                            out.violate('a repeated start did something again (poll / plugins / timer)')
                    installed = (cur_sys == d.trigger_handler.trace_call and cur_thr == d.trigger_handler.trace_call)
                    untouched = (cur_sys is pre_sys and cur_thr is pre_thr)
                    if recipe['no_trace'] in (True, 'True'):
                        if not untouched:
                            out.violate('tracing disabled by configuration, yet start changed the trace hooks')
                    elif recipe['no_trace'] in (None, False, ''):
                        if not installed:
                            out.violate('start did not install the agent\'s trace hooks')
                    else:
                        # 'false' / '0' / 'no': whether such a text disables tracing is not documented; either way the
                        # hooks must be wholly ours or wholly untouched, and shutdown must put the old ones back
                        if not (installed or untouched):
                            out.violate('start left the trace hooks half installed')
                    tracing_on = installed
                    if installed:
                        sys.settrace(cur_sys)
                    if not started_model and recipe['parked'] and worker[0] is None and tracing_on:
                        ns = {}
                        exec(_host_code, ns)
                        worker[0] = threading.Thread(target=ns['work'], args=(gate, reached), name='c14-parked')
                        sys.settrace(pre_sys)
                        if recipe.get('parked_kind') == 'capture':
                            # the parked invocation has deferred work pending (a capture of its return value)
                            from deep.api.tracepoint.trigger import Trigger, FunctionLocation, LocationAction, Location
                            act = LocationAction('tp-cap', None, {'stage': 'method_capture', 'fire_count': '-1',
                                                                  'fire_period': '0', 'watches': []},
                                                 LocationAction.ActionType.Snapshot)
                            d.trigger_handler.new_config(list(d.trigger_handler._tp_config) + [
                                Trigger(FunctionLocation('c14_host.py', 'work', Location.Position.CAPTURE), [act])])
                            out.cls('parked_with_deferred_capture')
                        worker[0].start()
                        if not reached.wait(10):
                            raise HarnessError('parked thread did not start')
                        sys.settrace(cur_sys)
                        out.cls('parked_thread')
                    started_model = True
                    ever_started = True
                elif op == 'hit':
                    # accepted sends that will fail / still be pending at shutdown
                    if started_model:
                        cur = sys.gettrace()
                        sys.settrace(pre_sys)
                        for o in recipe['sends']:
                            from vf.props.C09 import mk_snapshot
                            try:
                                d.push.push_snapshot(mk_snapshot())
                                accepted[0] += 1
                            except BaseException:      # noqa
                                pass
                        sys.settrace(cur)
                elif op == 'shutdown':
                    failing = any(s.get('faults') for s in specs) or 'fail' in recipe['sends']
                    sf = recipe.get('step_fault')
                    if sf and started_model:
                        # a shutdown step that fails after doing its work (e.g. the drain reports an error)
                        target = d.task_handler if sf == 'flush' else d.poll
                        attr = 'flush' if sf == 'flush' else 'shutdown'
                        orig = getattr(target, attr)

                        def failing_step(orig=orig):
                            orig()
                            raise RuntimeError('%s step failed' % sf)
                        setattr(target, attr, failing_step)
                        failing = True
                    was_started = started_model
                    n_shutdown_calls = len([c for c in world.calls if c[1] == 'shutdown'])
                    exc = None
                    if recipe.get('shutdown_on') == 'older_thread' and older is not None:
                        # shutdown is called by a thread that was already running when the agent started (a signal /
                        # atexit style worker), not by the thread that called start
                        out.cls('shutdown_from_an_older_thread')
                        box = []

                        def job():
                            try:
                                d.shutdown()
                            except BaseException as e:      # noqa
                                box.append(e)
                        older_jobs.put(job)
                        if not older_done.wait(5 if recipe.get('poll_timer') in ('zero', 'huge') else 30):
                            hung.append(1)
                            out.violate('shutdown did not return')
                            for t in timers:
                                t.interval = 1.0           # lets a timer thread that spins on its wait see the stop
                            older_done.wait(10)
                            break
                        older_done.clear()
                        exc = box[0] if box else None
                        # sys.settrace is per thread: what the calling thread's own hook is afterwards is not stated;
                        # the process-wide hook for new threads is
                        cur_sys, cur_thr = pre_sys, threading.gettrace()
                        resume_sys[0] = sys.gettrace()      # what this thread is left with (it did not call shutdown)
                    else:
                        try:
                            d.shutdown()
                        except BaseException as e:      # noqa
                            exc = e
                        cur_sys, cur_thr = sys.gettrace(), threading.gettrace()
                    sys.settrace(pre_sys)
                    if not bystander_ok('after shutdown'):
                        break
                    if was_started and failing:
                        out.cls('shutdown_with_failure')
                        out.nontrivial = True
                    if exc is not None:
                        out.violate('shutdown raised %s' % ('a plugin\'s shutdown failure' if isinstance(
                            exc, (plugsynth.PluginFault, plugsynth.PluginBaseFault)) else lab.exc_bucket(exc)))
                    if was_started:
                        if cur_sys is not pre_sys or cur_thr is not pre_thr:
                            what = 'disabled tracing: pre-existing hooks were wiped' if recipe['no_trace'] in (True, 'True') \
                                else 'hooks not restored to the pre-start ones'
                            out.violate('after shutdown: %s' % what,
                                        {'sys_restored': cur_sys is pre_sys, 'threading_restored': cur_thr is pre_thr})
                        for t in timers:
                            if t.thread.is_alive():
                                out.violate('after shutdown: the poll timer is still running')
                        if d.started:
                            out.violate('after shutdown: the agent still reports started')
                        calls = [c for c in world.calls if c[1] == 'shutdown']
                        per = {}
                        for c in calls[n_shutdown_calls:]:
                            per[c[0]] = per.get(c[0], 0) + 1
                        live = [i.name for i in world.instances]
                        missing = [n for n in live if per.get(n, 0) == 0]
                        twice = [n for n in live if per.get(n, 0) > 1]
                        if missing:
                            out.violate('after shutdown: a plugin was not shut down (after another one failed)'
                                        if failing else 'after shutdown: a plugin was not shut down',
                                        {'missing': missing})
                        if twice:
                            out.violate('after shutdown: a plugin was shut down twice')
                        if any(not f.done() for f in list(d.task_handler._pending.values())):
                            out.violate('after shutdown: accepted sends still unfinished')
                        elif len(sent) != accepted[0]:
                            # behavioural reading of "drains delivery": what was accepted has been handed to the channel
                            out.violate('after shutdown: accepted snapshots have not reached the channel (not drained)',
                                        {'accepted': accepted[0], 'reached_channel': len(sent)})
                    else:
                        if len([c for c in world.calls if c[1] == 'shutdown']) != n_shutdown_calls:
                            out.violate('a shutdown without a start did something')
                        if cur_sys is not pre_sys or cur_thr is not pre_thr:
                            out.violate('a shutdown without a start changed the trace hooks')
                    if was_started:
                        shut_once = True
                    started_model = False
            # ---- no further actions ---------------------------------------------------------------------------
            sys.settrace(pre_sys)
            if worker[0] is not None:
                logger_calls = lambda: [c for c in world.calls if c[1] == 'log_tracepoint']   # noqa
                n_log = len(logger_calls())
                n_send = len(channel.of('send'))
                n_push = len(push_attempts)
                gate.set()
                worker[0].join(10)
                if worker[0].is_alive():
                    raise HarnessError('parked thread did not finish')
                if not started_model and ever_started:
                    time.sleep(0.01)
                    if len(logger_calls()) != n_log or len(channel.of('send')) != n_send:
                        out.violate('after shutdown: a thread that was already running still acts on a tracepoint')
                    elif len(push_attempts) != n_push:
                        out.violate('after shutdown: a thread that was already running still hands a (deferred) snapshot '
                                    'over for delivery')
        finally:
            gate.set()
            if older is not None:
                older_jobs.put(None)
                older.join(10)
            if bystander is not None:
                by_ask.put(None)
                bystander.join(10)
            try:
                if d.started and not hung:
                    for s in specs:
                        s['faults'] = {}
                    if recipe.get('poll_timer') in ('zero', 'huge'):
                        # clean-up only: never wait for ever on a timer thread that cannot be stopped
                        cleaner = threading.Thread(target=d.shutdown, name='c14-cleanup', daemon=True)
                        cleaner.start()
                        cleaner.join(5)
                        if cleaner.is_alive():
                            hung.append(1)
                            for t in timers:
                                t.interval = 1.0
                            cleaner.join(10)
                    else:
                        d.shutdown()
            except BaseException:      # noqa
                pass
            for t in ([] if hung else timers):
                try:
                    t.stop()
                except BaseException:      # noqa
                    pass
            try:
                d.task_handler._pool.shutdown(wait=False)
            except BaseException:      # noqa
                pass
            sys.settrace(old_sys)
            threading.settrace(old_thr)
            plugsynth.drop_module(mname)
            lab.reset_world()
        return out


PROP = C14()
