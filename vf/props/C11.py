"""C11 - tracepoint configuration is interpreted as documented, one tracepoint at a time.

(1) the argument table (stage x method_name x span x snapshot x log_msg x condition x fire_count x fire_period x
    frame_type x stack_type x watches x metrics) - sampled in the quick tier, enumerated completely in the
    thorough tier; every row is installed through convert_response (protobuf in, as the service sends it) and
    its effects are observed behaviourally by driving three hits on the line and three entries of the named
    method;
(2) responses: lists of 1-5 such tracepoints with same-location groups and one uninterpretable member at any
    position, and the same tracepoints registered in code.
"""
import itertools

from hypothesis import strategies as st

from vf import lab
from vf.core import Prop, Outcome, fd

from deep.api.deep import Deep
from deep.grpc import convert_response
from deepproto.proto.tracepoint.v1.tracepoint_pb2 import TracePointConfig, Metric, MetricType

PATH, LINE, METHOD = 'c11_host.py', 6, 'target_fn'
LINE_STAGES = ['line_start', 'line_end', 'line_capture']
METHOD_STAGES = ['method_start', 'method_end', 'method_capture']

AXES = [
    ('stage', [None] + LINE_STAGES + METHOD_STAGES + ['bogus_stage']),
    ('method_name', [None, METHOD]),
    ('span', [None, 'method', 'line', 'bogus']),
    ('snapshot', [None, 'collect', 'no_collect', 'bogus']),
    ('log_msg', [None, 'plain text', 'v={v}']),
    ('condition', [None, 'True', 'False']),
    ('fire_count', [None, '2', '-1', 'zz']),
    ('fire_period', [None, '0', 'zz']),
    ('frame_type', [None, 'single_frame', 'all_frame', 'no_frame', 'bogus']),
    ('stack_type', [None, 'stack', 'no_stack']),
    ('watches', [0, 1]),
    ('metrics', [0, 1, 2]),
]
TOTAL_ROWS = 1
for _, vals_ in AXES:
    TOTAL_ROWS *= len(vals_)


def row_from_index(i):
    row = {}
    for name, vals_ in reversed(AXES):
        i, r = divmod(i, len(vals_))
        row[name] = vals_[r]
    return row


def to_proto(tp_id, row, path=PATH, line=LINE, marker=None, bad_metric=False):
    args = {}
    for k in ('stage', 'method_name', 'span', 'snapshot', 'log_msg', 'condition', 'fire_count', 'fire_period',
              'frame_type', 'stack_type'):
        if row.get(k) is not None:
            args[k] = row[k]
    watches = ['v'] if row.get('watches') else []
    if marker:
        watches = watches + [repr(marker)]
    metrics = []
    n = row.get('metrics', 0)
    if n >= 1:
        metrics.append(Metric(name='m1_' + tp_id, type=MetricType.COUNTER))
    if n >= 2:
        metrics.append(Metric(name='m2_' + tp_id, type=MetricType.GAUGE, expression='v'))
    if bad_metric:
        m = Metric(name='bad_' + tp_id)
        m.type = 9            # open enum on the wire: a value this client does not know
        metrics.append(m)
    return TracePointConfig(ID=tp_id, path=path, line_number=line, args=args, watches=watches, metrics=metrics)


def expected_effects(row):
    """From the statement: -> None if uninterpretable / outside the statement, else dict."""
    stage = row.get('stage')
    if stage == 'bogus_stage':
        return None
    if stage in LINE_STAGES:
        where = 'line'
    elif stage in METHOD_STAGES:
        where = 'method'
    else:
        where = 'method' if row.get('method_name') else 'line'
        if row.get('span') == 'method' and not row.get('method_name'):
            return 'outside'           # "the named method": no name to place it on
    if where == 'method' and not row.get('method_name'):
        return 'outside'
    fc = row.get('fire_count')
    hits = {'2': 2, '-1': 3, 'zz': 1, None: 1}[fc]
    if row.get('condition') == 'False':
        hits = 0
    eff = {'where': where, 'hits': hits,
           'snapshot': row.get('snapshot') != 'no_collect',
           'log': row.get('log_msg') is not None,
           'metrics': row.get('metrics', 0),
           'span': row.get('span') in ('method', 'line'),
           'span_unspecified': row.get('span') == 'bogus'}
    return eff


class Probe:
    """Drive three hits at the line and three entries of the named method; count what acts."""

    def __init__(self, triggers=None, deep=None):
        self.logger, self.mproc, self.sproc = lab.RecLogger(), lab.RecMetricProcessor(), lab.RecSpanProcessor()
        self.push = lab.RecPush()
        if deep is None:
            self.handler, self.cfg, _ = lab.make_handler(triggers, plugins=[self.logger, self.mproc, self.sproc],
                                                         push=self.push)
        else:
            self.handler = deep.trigger_handler
            deep.config.plugins = [self.logger, self.mproc, self.sproc]
            deep.trigger_handler._push_service = self.push

    def drive(self):
        out = {}
        # first the same line number and the same method name in files with *other* names (names that end with, start
        # with or contain the configured one): nothing is placed there
        n0 = self.counts()
        for other in ('host.py', 'xc11_host.py', 'c11_host.pyx', 'c11_host'):
            for event, func, line in (('line', 'other_fn', LINE), ('call', METHOD, 3)):
                gen = lab.frame_at(other, line, func, {'v': 7})
                self.handler.trace_call(gen.gi_frame, event, None)
                if event == 'call':
                    self.handler.trace_call(gen.gi_frame, 'return', None)
                gen.close()
        self.foreign = tuple(b - a for a, b in zip(n0, self.counts()))
        for where, event, func, line in (('line', 'line', 'other_fn', LINE), ('method', 'call', METHOD, 3)):
            gen = lab.frame_at(PATH, line, func, {'v': 7})
            n0 = self.counts()
            for _ in range(3):
                lab.CLOCK.advance_ms(2500)
                self.handler.trace_call(gen.gi_frame, event, None)
                if where == 'method':
                    # complete method-scoped deferred work (spans, captures) like a real return would
                    self.handler.trace_call(gen.gi_frame, 'return', None)
            if where == 'line':
                # the function goes on and returns: work deferred until the line has completed (a capture stage, a line
                # span) completes with the next event of the frame
                self.handler.trace_call(gen.gi_frame, 'return', None)
            gen.close()
            out[where] = self.delta(n0)
        return out

    def counts(self):
        return (len(self.push.snapshots), len(self.logger.calls), len(self.mproc.calls), len(self.sproc.spans))

    def delta(self, n0):
        n1 = self.counts()
        return {'snapshots': self.push.snapshots[n0[0]:], 'logs': self.logger.calls[n0[1]:],
                'metrics': self.mproc.calls[n0[2]:], 'spans': self.sproc.spans[n0[3]:]}


def check_effects(out, tp_id, row, seen, tag='row'):
    """Compare what acted for tracepoint tp_id with the statement's expectation."""
    eff = expected_effects(row)
    if eff == 'outside':
        return True
    mine = {}
    for where in ('line', 'method'):
        d = seen[where]
        mine[where] = {
            'snapshots': [s for s in d['snapshots'] if s.tracepoint.id == tp_id],
            'logs': [c for c in d['logs'] if tp_id in (c[1], c[2])],
            'metrics': [c for c in d['metrics'] if c[1].endswith('_' + tp_id)],
            'spans': [s for s in d['spans'] if s.tp_id == tp_id],
        }
    if eff is None:
        acted = any(mine[w][k] for w in mine for k in mine[w])
        return out.check(not acted, '%s: uninterpretable tracepoint still acts' % tag, {'row': row})
    other = 'method' if eff['where'] == 'line' else 'line'
    if any(mine[other][k] for k in mine[other]):
        kinds = [k for k in mine[other] if mine[other][k]]
        return out.check(False, '%s: acts on the %s although configured for the %s (%s)' % (tag, other, eff['where'],
                                                                                       kinds[0]), {'row': row})
    m = mine[eff['where']]
    hits = eff['hits']
    exp = {'snapshots': hits if eff['snapshot'] else 0, 'logs': hits if eff['log'] else 0,
           'metrics': hits * eff['metrics'], 'spans': hits if eff['span'] else 0}
    for k in ('snapshots', 'logs', 'metrics', 'spans'):
        if k == 'spans' and eff['span_unspecified']:
            continue
        if len(m[k]) != exp[k]:
            why = 'missing' if len(m[k]) < exp[k] else 'unexpected'
            return out.check(False, '%s: %s %s' % (tag, why, k), {'row': row, 'expected': exp[k], 'got': len(m[k]),
                                                                  'where': eff['where']})
    if eff['snapshot'] and hits:
        # every fire carries the tracepoint's own watches and log message, not only the first one
        for nth, s in enumerate(m['snapshots']):
            which = 'the snapshot' if nth == 0 else 'a later snapshot'
            if row.get('watches') and 'v' not in [w.expression for w in s.watches]:
                return out.check(False, '%s: configured watch missing on %s' % (tag, which), {'row': row})
            if not row.get('watches') and any(w.expression == 'v' and w.source == 'WATCH' for w in s.watches):
                return out.check(False, '%s: watch of another tracepoint on %s' % (tag, which), {'row': row})
            if eff['log'] and not s.log_msg:
                return out.check(False, '%s: log message not recorded on %s' % (tag, which), {'row': row})
    return True


ROW_STRATEGY = fd({name: st.sampled_from(vals_) for name, vals_ in AXES})


class C11(Prop):
    id = 'C11'
    level = 'exploration'
    rule = ('(1) rows of the %d-row argument table (12 keys with valid / absent / unknown values), sampled (quick) or '
            'enumerated completely over 16 shards (thorough), each installed from a protobuf response and observed by '
            'three hits on the line and three entries of the method; (2) responses of 1-5 tracepoints with same-location '
            'groups, an uninterpretable member (unknown stage or out-of-range metric type) at any position, and the '
            'same tracepoints registered in code; non-trivial = a row with >= 3 non-default keys, or a response with '
            '>= 2 tracepoints of which one shares a location or is uninterpretable; distinct = distinct recipe' % TOTAL_ROWS)
    assumptions = ['effects are observed behaviourally through recording logger / metric / span plugins and a recording '
                   'push service, on suspended-generator frames',
                   'method stage without method_name and span=method without method_name are outside the statement '
                   '("the named method") and only required not to disturb others',
                   'span with an unknown value: either outcome accepted',
                   'line-stage variants are only required to act on the line']
    quick_examples = 1500
    thorough_examples = 3000
    fuzz_runs = 15000
    exhaustive_thorough = True
    floors = {'response': 0.15, 'bad_member': 0.06, 'shared_location': 0.08}

    def enumerate(self, tier, shard=0, nshards=1):
        if tier == 'quick':
            # a deterministic slice of the table: every 997th row (a stride coprime to every axis size)
            for i in range(0, TOTAL_ROWS, 997):
                yield {'mode': 'row', 'row': row_from_index(i)}
            return
        for i in range(shard, TOTAL_ROWS, nshards):
            yield {'mode': 'row', 'row': row_from_index(i)}

    def strategy(self, tier):
        row = fd({'mode': st.just('row'), 'row': ROW_STRATEGY})
        member = fd({'row': ROW_STRATEGY, 'loc': st.sampled_from([0, 0, 0, 1]),
                                        'bad': st.sampled_from([None, None, None, 'stage', 'metric'])})
        response = fd({'mode': st.just('response'), 'members': st.lists(member, min_size=1, max_size=5),
                       'via': st.sampled_from(['poll', 'poll', 'register']),
                       # a second poll answer that keeps only these members (same ids, same definitions)
                       'repoll_keep': st.one_of(st.none(), st.lists(st.booleans(), min_size=5, max_size=5))})
        return st.one_of(row, response, response)

    def run_case(self, recipe):
        lab.reset_world()
        try:
            if recipe['mode'] == 'row':
                return self.case_row(recipe['row'])
            return self.case_response(recipe)
        finally:
            lab.reset_world()

    def case_row(self, row):
        out = Outcome()
        out.cls('row')
        nondefault = sum(1 for k, v in row.items() if v not in (None, 0))
        out.nontrivial = nondefault >= 3
        try:
            triggers = convert_response([to_proto('tp1', row)])
        except BaseException as e:      # noqa
            eff = expected_effects(row)
            out.violate('convert_response raised for a %s tracepoint: %s' % (
                'single uninterpretable' if eff is None else 'well-formed', lab.exc_bucket(e)), {'row': row})
            return out
        p = Probe(triggers)
        try:
            seen = p.drive()
        except BaseException as e:      # noqa
            out.violate('handler raised %s' % lab.exc_bucket(e), {'row': row})
            return out
        if any(p.foreign):
            out.violate('acts in a file with another name (same line number / method name)', {'extra': list(p.foreign)})
            return out
        check_effects(out, 'tp1', row, seen)
        return out

    def case_response(self, recipe):
        out = Outcome()
        out.cls('response', 'via_' + recipe['via'])
        members = recipe['members']
        rows = []
        protos = []
        for i, m in enumerate(members):
            row = dict(m['row'])
            bad = m['bad']
            if bad == 'stage':
                row['stage'] = 'bogus_stage'
            rows.append((('tp%d' % i), row, bad))
            # loc 1 = another line of the same file: never hit by the probe, but shares the response
            protos.append(to_proto('tp%d' % i, row, line=LINE if m['loc'] == 0 else LINE + 20,
                                   bad_metric=(bad == 'metric')))
        if any(b for _, _, b in rows):
            out.cls('bad_member')
        on_loc = [m for m in members if m['loc'] == 0]
        if len(on_loc) >= 2:
            out.cls('shared_location')
        out.nontrivial = len(members) >= 2 and (len(on_loc) >= 2 or any(b for _, _, b in rows))
        if recipe['via'] == 'poll':
            try:
                triggers = convert_response(protos)
                keep = recipe.get('repoll_keep')
                if keep is not None:
                    # the next poll brings a smaller configuration: only what it names may act afterwards
                    out.cls('second_poll_with_subset')
                    sel = [i for i in range(len(protos)) if keep[i]]
                    triggers = convert_response([protos[i] for i in sel])
                    rows = [rows[i] for i in sel]
                    members = [members[i] for i in sel]
                    protos = [protos[i] for i in sel]
            except BaseException as e:      # noqa
                out.violate('one uninterpretable tracepoint loses the whole response: convert_response raised %s'
                            % lab.exc_bucket(e), {'bad': [b for _, _, b in rows]})
                return out
            p = Probe(triggers)
            ids = {tp_id: tp_id for tp_id, _, _ in rows}
        else:
            cfg = lab.make_cfg({'APP_ROOT': '/app'})
            d = Deep(cfg)
            d.task_handler._pool.shutdown(wait=False)
            d.task_handler._pool = lab.InlinePool()
            p = Probe(deep=d)
            ids = {}
            from deep.grpc import convert_label_expressions   # noqa
            from deep.api.tracepoint.tracepoint_config import MetricDefinition
            for (tp_id, row, bad), proto, m in zip(rows, protos, members):
                if bad == 'metric':
                    ids[tp_id] = None
                    continue            # an out-of-range enum cannot be expressed through the code API
                metrics = [MetricDefinition(mm.name, MetricType.Name(mm.type), [], mm.expression or None)
                           for mm in proto.metrics]
                n_before = len(p.push.snapshots)
                try:
                    d.register_tracepoint(PATH, proto.line_number, dict(proto.args), list(proto.watches), metrics)
                except BaseException as e:      # noqa
                    if bad == 'stage':
                        ids[tp_id] = None       # refused visibly: affects only itself
                        continue
                    out.violate('register_tracepoint raised for a well-formed tracepoint: %s' % lab.exc_bucket(e))
                    return out
                ids[tp_id] = 'registered'
        try:
            seen = p.drive()
        except BaseException as e:      # noqa
            out.violate('handler raised after install: %s' % lab.exc_bucket(e))
            return out
            if any(p.foreign):
                out.violate('acts in a file with another name (same line number / method name)', {'extra': list(p.foreign)})
                return out
        errs = sorted(set(lab.LOGS.errors()))
        if any('NoneType' in e or 'AttributeError@trigger_handler' in e for e in errs):
            out.violate('an uninterpretable registration poisons the installed list (handler fails on every event)',
                        {'errors': errs[:3]})
            return out
        if recipe['via'] == 'register':
            # registered tracepoints get generated ids: attribute effects by marker-free counting per row is not
            # possible, so compare totals for the probed location
            self.totals(out, rows, members, seen)
            return out
        # nothing may act that the (latest) response does not name
        kept = {tp_id for tp_id, _, _ in rows}
        for where in ('line', 'method'):
            actors = {s_.tracepoint.id for s_ in seen[where]['snapshots']} | {sp.tp_id for sp in seen[where]['spans']} | \
                {c[1].split('_', 1)[1] for c in seen[where]['metrics'] if '_' in c[1]} | \
                {c[1] for c in seen[where]['logs'] if str(c[1]).startswith('tp')}
            ghosts = sorted(a for a in actors if a.startswith('tp') and a not in kept)
            if ghosts:
                out.violate('a tracepoint that the latest response no longer names still acts', {'ghosts': ghosts})
                return out
        for (tp_id, row, bad), m in zip(rows, members):
            eff0 = expected_effects(row)
            if m['loc'] != 0 and not (isinstance(eff0, dict) and eff0['where'] == 'method'):
                continue            # a line tracepoint on a line the probe never reaches
            if bad == 'metric':
                row = dict(row, stage='bogus_stage')        # uninterpretable as a whole
            if not check_effects(out, tp_id, row, seen, tag='member of a response'):
                break
        return out

    def totals(self, out, rows, members, seen):
        exp = {'line': {'snapshots': 0, 'logs': 0, 'metrics': 0, 'spans': 0},
               'method': {'snapshots': 0, 'logs': 0, 'metrics': 0, 'spans': 0}}
        unspecified = False
        for (tp_id, row, bad), m in zip(rows, members):
            if bad == 'metric':
                continue
            eff = expected_effects(row)
            if m['loc'] != 0 and not (isinstance(eff, dict) and eff['where'] == 'method'):
                continue
            if eff == 'outside':
                unspecified = True
                continue
            if eff is None:
                continue
            if eff['span_unspecified']:
                unspecified = True
            e = exp[eff['where']]
            e['snapshots'] += eff['hits'] if eff['snapshot'] else 0
            e['logs'] += eff['hits'] if eff['log'] else 0
            e['metrics'] += eff['hits'] * eff['metrics']
            e['spans'] += eff['hits'] if eff['span'] else 0
        if unspecified:
            return
        for where in ('line', 'method'):
            for k in ('snapshots', 'logs', 'metrics', 'spans'):
                got = len(seen[where][k])
                if got != exp[where][k]:
                    out.violate('registered in code: %s %s in total' % ('missing' if got < exp[where][k] else 'unexpected', k),
                                {'where': where, 'expected': exp[where][k], 'got': got})
                    return


PROP = C11()
