"""C09 - delivery runs off the application thread, exactly once, and flush really drains.

Histories over a real TaskHandler + real PushService + fake channel.  Simulated mode: the executor is a
SimPool (tasks complete only when the generated schedule says so, on worker threads) and _pending is a
SchedDict; flush() runs on a controlled thread and every _pending access / blocking wait is a point where the
schedule may complete any pending task.  Real mode: the real 2-worker pool with sends blocked on gates
released in a generated order while flush() runs.
"""
import threading
import time

from hypothesis import strategies as st

from vf import lab, sched
from vf.core import Prop, Outcome, HarnessError, fd

import deep.push
from deep.api.resource import Resource
from deep.api.tracepoint import EventSnapshot
from deep.api.tracepoint.tracepoint_config import TracePointConfig
from deep.push.push_service import PushService
from deep.task import TaskHandler, IllegalStateException
from deepproto.proto.tracepoint.v1.tracepoint_pb2 import Snapshot, SnapshotResponse

_real_convert = deep.push.convert_snapshot


class SendFailed(Exception):
    pass


class TaskBase(BaseException):
    pass


class Grpc:
    def __init__(self, channel):
        self.channel = channel

    def metadata(self):
        return [('k', 'v')]


def mk_snapshot():
    return EventSnapshot(TracePointConfig('tp', 'f.py', 1, {}, [], []), 1, Resource.create(), [], {})


class YieldingLock:
    """A lock after whose release another thread's whole call can be scheduled (run inline: between the release and
    the releasing thread's next instruction any other thread may run for as long as it likes)."""

    def __init__(self):
        self._lock = threading.Lock()
        self.after_release = []

    def acquire(self, *a, **k):
        return self._lock.acquire(*a, **k)

    def release(self):
        self._lock.release()
        if self.after_release:
            self.after_release.pop(0)()

    def __enter__(self):
        self._lock.acquire()
        return self

    def __exit__(self, *exc):
        self.release()
        return False


class C09(Prop):
    id = 'C09'
    level = 'exploration'
    rule = ('history of push / submit (ok, failing in conversion, failing in send, raising task) / run(i) / '
            'flush(schedule) / submit-after-close over <= 12 tasks; during flush every _pending access and every '
            'blocking wait is a yield point at which the generated schedule completes any pending task; plus a '
            'real-thread mode with gated sends; non-trivial = >= 1 failing task still unfinished when flush starts, or '
            '>= 3 tasks completing during flush; distinct = distinct recipe')
    assumptions = ['every task finishes once scheduled (the 10 s cap inside flush is not probed)',
                   'simulated mode: yield points are the shared-dict accesses and blocking waits of flush; real mode '
                   'asserts schedule-independent facts only',
                   'a blocked flush is recognised by a 4 ms poll; that only decides *when* a task is completed, never '
                   'the verdict']
    quick_examples = 400
    thorough_examples = 2500
    floors = {'failing_unfinished_at_flush': 0.08, 'three_complete_during_flush': 0.06, 'after_close': 0.12,
              'real_threads': 0.05, 'backlog': 0.05, 'backlog_1000': 0.01}

    def strategy(self, tier):
        outcome = st.sampled_from(['ok', 'ok', 'convert_fail', 'send_fail', 'convert_none'])
        op = st.one_of(st.tuples(st.just('push'), outcome), st.tuples(st.just('push'), outcome),
                       st.tuples(st.just('submit'), st.sampled_from(['ok', 'raise', 'raise_base'])),
                       st.tuples(st.just('run'), st.integers(0, 5)),
                       st.tuples(st.just('overtaken'), outcome, outcome))
        sim = fd({
            'mode': st.just('sim'),
            'ops': st.lists(op, min_size=1, max_size=12).map(lambda l: [list(o) for o in l]),
            'schedule': st.lists(st.one_of(st.none(), st.integers(0, 5)), max_size=14),
            'after': st.lists(st.sampled_from(['push', 'submit']), max_size=2),
            'second_flush': st.booleans(),
        })
        real = fd({
            'mode': st.just('real'),
            'outcomes': st.lists(outcome, min_size=1, max_size=5),
            'release_before_flush': st.integers(0, 5),
            'order': st.lists(st.integers(0, 10), min_size=5, max_size=5),
            'base_failures': st.sampled_from([0, 0, 1, 2, 3]),
        })
        # a backlog: many snapshots handed over while no worker makes progress (a collector that is slow or down)
        burst = fd({
            'mode': st.just('burst'),
            'n': st.one_of(st.integers(1, 60), st.integers(1, 60), st.integers(61, 1500),
                           st.sampled_from([255, 256, 1000, 1001, 1024, 2048, 4096])),
            'fail_every': st.sampled_from([0, 0, 3, 7]),
            'second_wave': st.booleans(),
            # another handler in the process (a second agent object, a test fixture) with unfinished work of its own
            'neighbour': st.sampled_from([0, 0, 1, 3]),
            'neighbour_late': st.booleans(),
        })
        return st.one_of(sim, sim, sim, sim, sim, sim, real, burst)

    def run_case(self, recipe):
        lab.reset_world()
        try:
            if recipe['mode'] == 'sim':
                return self.case_sim(recipe)
            if recipe['mode'] == 'burst':
                return self.case_burst(recipe)
            return self.case_real(recipe)
        finally:
            deep.push.convert_snapshot = _real_convert
            lab.reset_world()

    # -------------------------------------------------------------------------------------------------
    def _world(self, pool=None, turns=None):
        outcomes = {}          # snapshot id -> outcome
        sent = {}              # snapshot id -> list of thread names

        def responder(method, raw):
            sid = int.from_bytes(Snapshot.FromString(raw).ID, 'big')
            sent.setdefault(sid, []).append(threading.current_thread().name)
            gate = gates.get(sid)
            if gate is not None and threading.current_thread() is not threading.main_thread():
                gate.wait(30)
            if outcomes.get(sid) == 'send_fail':
                return SendFailed('send failed')
            return SnapshotResponse()

        gates = {}
        channel = lab.FakeChannel(responder)

        def convert(snapshot):
            o = outcomes.get(snapshot.id)
            if o == 'convert_fail':
                raise RuntimeError('conversion failed')
            if o == 'convert_none':
                return None
            return _real_convert(snapshot)
        deep.push.convert_snapshot = convert
        th = TaskHandler()
        th._lock = YieldingLock()
        if pool is not None:
            th._pool.shutdown(wait=False)
            th._pool = pool
        if turns is not None:
            th._pending = sched.SchedDict(turns)
        ps = PushService(Grpc(channel), th)
        return th, ps, channel, outcomes, sent, gates

    def case_sim(self, recipe):
        out = Outcome()
        pool = sched.SimPool()
        turns = sched.Turns()
        th, ps, channel, outcomes, sent, gates = self._world(pool, turns)
        pushed = []            # (snapshot id, outcome)
        ran_generic = []
        generic = []

        def mk_task(kind, n):
            def task():
                ran_generic.append(n)
                if kind == 'raise':
                    raise ValueError('task %d failed' % n)
                if kind == 'raise_base':
                    raise KeyboardInterrupt()
            return task
        pusher = threading.current_thread().name
        for op in recipe['ops']:
            if op[0] == 'push':
                s = mk_snapshot()
                outcomes[s.id] = op[1]
                n_tasks = len(pool.tasks)
                n_calls = len(channel.calls)
                try:
                    ps.push_snapshot(s)
                except BaseException as e:      # noqa
                    out.violate('push_snapshot raised %s' % type(e).__name__)
                    return out
                pushed.append((s.id, op[1]))
                if len(channel.calls) != n_calls or len(pool.tasks) != n_tasks + 1:
                    out.violate('push_snapshot did not hand the work to the background executor (sent inline?)',
                                {'calls_during_push': len(channel.calls) - n_calls})
                    return out
            elif op[0] == 'overtaken':
                # a second thread hands over its snapshot in the gap after the first one's lock release
                out.cls('push_overtaken_by_another_push')
                s1, s2 = mk_snapshot(), mk_snapshot()
                outcomes[s1.id], outcomes[s2.id] = op[1], op[2]
                n_tasks = len(pool.tasks)
                errs = []

                def other(s2=s2):
                    try:
                        ps.push_snapshot(s2)
                    except BaseException as e:      # noqa
                        errs.append(e)
                th._lock.after_release.append(other)
                try:
                    ps.push_snapshot(s1)
                except BaseException as e:      # noqa
                    errs.append(e)
                del th._lock.after_release[:]
                if errs:
                    out.violate('push_snapshot raised %s' % type(errs[0]).__name__)
                    return out
                pushed.extend([(s1.id, op[1]), (s2.id, op[2])])
                if len(pool.tasks) != n_tasks + 2:
                    out.violate('push_snapshot did not hand the work to the background executor (sent inline?)')
                    return out
            elif op[0] == 'submit':
                n = len(generic)
                generic.append(op[1])
                try:
                    th.submit_task(mk_task(op[1], n))
                except BaseException as e:      # noqa
                    out.violate('submit_task raised %s' % type(e).__name__)
                    return out
            elif op[0] == 'run':
                pool.complete(op[1])
        pend = pool.pending()
        n_pending_at_flush = len(pend)
        failing_kinds = ('convert_fail', 'send_fail')
        pend_ids = set()
        for f, fn, args, kw in pend:
            if args and hasattr(args[0], 'id') and outcomes.get(args[0].id) in failing_kinds:
                out.cls('failing_unfinished_at_flush')
                out.nontrivial = True
        n_generic_fail_pending = 0
        # ---- flush under a generated schedule ----------------------------------------------------------
        exc, finished, during = sched.run_controlled(th.flush, turns, pool, recipe['schedule'])
        if isinstance(exc, HarnessError):
            raise exc
        if during >= 3:
            out.cls('three_complete_during_flush')
            out.nontrivial = True
        if any(k in ('raise', 'raise_base') for k in generic) and n_pending_at_flush:
            out.cls('generic_task_fails')
        if exc is not None:
            kind = 'KeyError (pending entry removed between two reads)' if isinstance(exc, KeyError) else \
                'the failure of a task'
            out.violate('flush raised %s' % kind, {'pending_at_flush': n_pending_at_flush})
        else:
            left = pool.pending()
            if left:
                out.violate('flush returned while accepted tasks were still unfinished', {'left': len(left)})
            if len(dict.keys(th._pending)) != 0:
                out.violate('entries left in the pending table after a completed flush',
                            {'left': len(dict.keys(th._pending))})
        pool.complete_all()
        # ---- after closing -----------------------------------------------------------------------------------
        for what in recipe['after']:
            out.cls('after_close')
            n_tasks = len(pool.tasks)
            try:
                if what == 'push':
                    ps.push_snapshot(mk_snapshot())
                else:
                    th.submit_task(mk_task('ok', 99))
                out.violate('work submitted after closing was accepted silently', {'what': what})
            except BaseException:      # noqa - refused visibly (IllegalStateException today; any exception is visible)
                pass
            pool.complete_all()
            if 99 in ran_generic or len(pool.tasks) != n_tasks:
                out.violate('work refused after closing was run anyway')
        if recipe['second_flush']:
            try:
                th.flush()
            except BaseException as e:      # noqa
                out.violate('a second flush raised %s' % type(e).__name__)
        # ---- exactly once, failures contained ----------------------------------------------------------------
        for sid, o in pushed:
            n = len(sent.get(sid, []))
            exp = 0 if o in ('convert_fail', 'convert_none') else 1
            if n != exp:
                out.violate('snapshot sent %d times instead of %d (%s)' % (n, exp, o))
                break
            if any(name == pusher for name in sent.get(sid, [])):
                out.violate('snapshot sent on the thread that pushed it')
                break
        for i, k in enumerate(generic):
            if ran_generic.count(i) != 1:
                out.violate('generic task ran %d times' % ran_generic.count(i))
                break
        return out

    def case_burst(self, recipe):
        out = Outcome()
        pool = sched.SimPool()
        th, ps, channel, outcomes, sent, gates = self._world(pool, None)
        pusher = threading.current_thread().name
        n = recipe['n']
        out.cls('backlog')
        if n >= 1000:
            out.cls('backlog_1000')
        out.nontrivial = n >= 10
        ids = []
        th2, pool2, ran2 = None, None, []
        if recipe.get('neighbour'):
            out.cls('second_handler_with_unfinished_work')
            pool2 = sched.SimPool()
            th2 = TaskHandler()
            th2._pool.shutdown(wait=False)
            th2._pool = pool2
            for j in range(recipe['neighbour']):
                th2.submit_task(ran2.append, j)
        for i in range(n):
            s = mk_snapshot()
            o = 'send_fail' if recipe['fail_every'] and i % recipe['fail_every'] == 0 else 'ok'
            outcomes[s.id] = o
            ids.append((s.id, o))
            try:
                ps.push_snapshot(s)
            except BaseException as e:      # noqa
                out.violate('push_snapshot raised %s' % type(e).__name__, {'backlog': i})
                return out
            if channel.calls or len(pool.tasks) != i + 1:
                out.violate('push_snapshot did not hand the work to the background executor (sent inline?)',
                            {'backlog': i, 'calls_during_push': len(channel.calls)})
                return out
        pool.drain()
        if recipe.get('second_wave'):
            # the first wave is delivered (or has failed) and is garbage now; the snapshots of a second wave are new
            # objects - some of them at the addresses of the old ones - and are handed over like any other
            out.cls('second_wave_after_garbage')
            del s
            base_n = len(pool.tasks)
            for i in range(min(n, 200)):
                s2 = mk_snapshot()
                outcomes[s2.id] = 'ok'
                ids.append((s2.id, 'ok'))
                try:
                    ps.push_snapshot(s2)
                except BaseException as e:      # noqa
                    out.violate('push_snapshot raised %s' % type(e).__name__, {'second_wave': i})
                    return out
                if len(pool.tasks) != base_n + i + 1:
                    out.violate('push_snapshot did not hand the work to the background executor (sent inline?)',
                                {'second_wave': i})
                    return out
                del s2
            pool.drain()
        if th2 is not None:
            # everything this handler accepted is done: its flush has nothing to wait for, whatever the other one holds
            res = {}

            def flusher():
                try:
                    th.flush()
                except BaseException as e:      # noqa
                    res['exc'] = e
            t = threading.Thread(target=flusher, name='burst-flusher')
            t.start()
            t.join(4)
            waited = t.is_alive()
            if waited:
                pool2.drain()
            t.join(15)
            if t.is_alive():
                raise HarnessError('flush did not return (inconclusive)')
            if waited:
                out.violate('flush waits for the unfinished tasks of another handler')
            if 'exc' in res:
                out.violate('flush raised %s' % type(res['exc']).__name__)
            late = ['late'] if recipe.get('neighbour_late') else []
            if late:
                try:
                    th2.submit_task(ran2.append, 'late')
                except BaseException as e:      # noqa
                    out.violate('the flush of one handler closed another handler', {'error': type(e).__name__})
            # the second handler's own flush waits for what that handler accepted
            res2 = {}

            def flusher2():
                try:
                    th2.flush()
                except BaseException as e:      # noqa
                    res2['exc'] = e
            t2 = threading.Thread(target=flusher2, name='burst-flusher-2')
            t2.start()
            t2.join(0.3)
            if not t2.is_alive() and pool2.pending():
                out.violate('flush returned while accepted tasks were still unfinished', {'handler': 'second',
                                                                                          'left': len(pool2.pending())})
            pool2.drain()
            t2.join(15)
            if t2.is_alive():
                raise HarnessError('flush did not return (inconclusive)')
            if 'exc' in res2:
                out.violate('flush raised %s' % type(res2['exc']).__name__, {'handler': 'second'})
            if sorted(map(str, ran2)) != sorted(map(str, list(range(recipe['neighbour'])) + late)):
                out.violate('tasks of the second handler did not run exactly once', {'ran': [str(x) for x in ran2]})
        try:
            th.flush()
        except BaseException as e:      # noqa
            out.violate('flush raised %s' % type(e).__name__)
        for sid, o in ids:
            names = sent.get(sid, [])
            if len(names) != 1:
                out.violate('snapshot sent %d times instead of 1 (%s)' % (len(names), o))
                break
            if names[0] == pusher:
                out.violate('snapshot sent on the thread that pushed it')
                break
        if len(dict.keys(th._pending)) != 0:
            out.violate('entries left in the pending table after a completed flush')
        return out

    def case_real(self, recipe):
        out = Outcome()
        out.cls('real_threads')
        out.nontrivial = True
        th, ps, channel, outcomes, sent, gates = self._world()
        # earlier tasks that failed with a BaseException (the agent's own IllegalStateException is one): a failure is
        # contained where it happens, the workers go on delivering
        import concurrent.futures as _cf

        def failing():
            raise TaskBase('task failed with a BaseException')
        for _ in range(recipe.get('base_failures') or 0):
            out.cls('worker_saw_base_exception')
            try:
                fut = th.submit_task(failing)
            except BaseException as e:      # noqa
                out.violate('submit_task raised %s' % type(e).__name__)
                return out
            _cf.wait([fut], timeout=5)
        snaps = []
        for o in recipe['outcomes']:
            s = mk_snapshot()
            outcomes[s.id] = o
            gates[s.id] = threading.Event()
            snaps.append(s)
        pusher = threading.current_thread().name
        for s in snaps:
            try:
                ps.push_snapshot(s)
            except BaseException as e:      # noqa
                out.violate('push_snapshot raised %s' % type(e).__name__)
                for g in gates.values():
                    g.set()
                th._pool.shutdown(wait=True)
                return out
        order = sorted(range(len(snaps)), key=lambda i: recipe['order'][i])
        k = min(recipe['release_before_flush'], len(snaps))
        for i in order[:k]:
            gates[snaps[i].id].set()
        res = {}

        def flusher():
            try:
                th.flush()
                res['exc'] = None
            except BaseException as e:      # noqa
                res['exc'] = e
        t = threading.Thread(target=flusher, name='real-flusher')
        t.start()
        returned_early = False
        for pos, i in enumerate(order[k:]):
            t.join(0.02)
            still_blocking = [j for j in order[k:][pos:] if outcomes[snaps[j].id] in ('ok', 'send_fail')]
            if not t.is_alive() and still_blocking:
                returned_early = True
            gates[snaps[i].id].set()
        t.join(15)
        if t.is_alive():
            for g in gates.values():
                g.set()
            raise HarnessError('real flush did not return after every gate was released (inconclusive)')
        if returned_early and res.get('exc') is None:
            out.violate('flush returned while accepted tasks were still blocked in send')
        if res.get('exc') is not None:
            out.violate('flush raised the failure of a task')
        th._pool.shutdown(wait=True)
        for s in snaps:
            o = outcomes[s.id]
            n = len(sent.get(s.id, []))
            exp = 0 if o in ('convert_fail', 'convert_none') else 1
            if n != exp:
                out.violate('snapshot sent %d times instead of %d (%s)' % (n, exp, o))
                break
            if pusher in sent.get(s.id, []):
                out.violate('snapshot sent on the thread that pushed it')
        try:
            ps.push_snapshot(mk_snapshot())
            out.violate('work submitted after closing was accepted silently', {'what': 'push'})
        except BaseException:      # noqa - refused visibly
            pass
        return out


PROP = C09()
