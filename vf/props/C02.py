"""C02 - snapshot fidelity: a snapshot truthfully describes the paused frame.

Generated programs hold generated (friendly) values in locals; one tracepoint (line or method) with a
generated frame_type / watches / app-root config.  The interposer takes its own reading of the whole
f_back chain at the instant the tracepoint's event is delivered, then lets the real agent run; the
snapshot it pushes is compared field by field with that reading.
"""
import os
import threading

from hypothesis import strategies as st

from vf import lab, progs, probe, values, oracle
from vf.core import Prop, Outcome, fd
from vf.props.C03 import resolve_tps

from deep.api.tracepoint.trigger import build_trigger
from deep.api.plugin.python import PythonPlugin
from deep.grpc import convert_response
from deepproto.proto.tracepoint.v1.tracepoint_pb2 import TracePointConfig

LIMITS = oracle.Limits()
# besides the kinds whose whole rendering the statement fixes: library types and subclasses of builtins whose type name
# and str() text are what is checked (their children are unspecified)
PLAIN_TEXT_KINDS = ['bytes', 'bytearray', 'datetime', 'decimal', 'fraction', 'uuid', 'path', 'range', 'complex', 'enum',
                    'namedtuple', 'namedtuple', 'strsub', 'intsub', 'dataclass', 'date', 'timedelta', 'slice',
                    'ordereddict', 'defaultdict', 'counter', 'deque', 'listsub', 'dictsub', 'slots']
FRIENDLY = values.FRIENDLY * 3 + PLAIN_TEXT_KINDS


def read_chain(frame):
    chain = []
    f = frame
    while f is not None:
        loc = f.f_locals
        slf = loc.get('self', None)
        chain.append({'file': f.f_code.co_filename, 'func': f.f_code.co_name, 'line': f.f_lineno,
                      'cls': type(slf).__name__ if slf is not None else None, 'locals': dict(loc),
                      'globals': f.f_globals})
        f = f.f_back
    return chain


def shortest_depths(roots):
    depth = {}
    frontier = []
    for v in roots:
        if id(v) not in depth:
            depth[id(v)] = 1
            frontier.append(v)
    d = 1
    while frontier and d < 8:
        nxt = []
        for v in frontier:
            kids = oracle.children_of(v) if oracle.is_friendly(v) else None
            if kids is None:
                continue
            if kids == 'unordered':
                kids = [(None, c) for c in v]
            elif type(v) in (list, tuple) or isinstance(v, Exception):
                kids = kids[:LIMITS.max_collection_size]
            for _, c in kids:
                if id(c) not in depth:
                    depth[id(c)] = d + 1
                    nxt.append(c)
        frontier = nxt
        d += 1
    return depth


def compare_complete(table, vid, value, sd, path, seen, complete):
    """compare_var with the completeness rule: children are required iff the object's shortest-path depth
    from the frame's locals is <= max depth - 2 (such objects are expanded whatever the walk order)."""
    key = (vid, id(value))
    if key in seen:
        return
    seen.add(key)
    var = table.get(vid)
    if var is None:
        raise oracle.Mismatch('dangling-variable-id', path)
    tname = type(value).__name__
    if var.type != tname:
        raise oracle.Mismatch('wrong-type', path, {'got': var.type, 'expected': tname})
    ok, why = oracle.text_ok(value, var.value, var.truncated, LIMITS)
    if not ok:
        raise oracle.Mismatch('wrong-text', path, {'got': var.value[:60], 'why': why, 'type': tname})
    if not oracle.is_friendly(value):
        return
    kids = oracle.children_of(value)
    if kids is None:
        return
    need = complete and sd.get(id(value), 99) <= LIMITS.max_var_depth - 2
    got = list(var.children)
    if kids == 'unordered':
        elems = list(value)
        cap = min(len(elems), LIMITS.max_collection_size)
        if len(got) > cap:
            raise oracle.Mismatch('too-many-children', path, {'got': len(got)})
        if need and len(got) != cap:
            raise oracle.Mismatch('missing-children', path, {'got': len(got), 'expected': cap})
        pool = list(elems)
        for c in got:
            hit = _NOHIT
            for e in pool:
                try:
                    compare_complete(table, c.vid, e, sd, path + ['{}'], set(seen), False)
                    hit = e
                    break
                except oracle.Mismatch:
                    continue
            if hit is _NOHIT:
                raise oracle.Mismatch('set-child-not-an-element', path)
            pool = [x for x in pool if x is not hit] + [x for x in pool if x is hit][1:]
        return
    if type(value) in (list, tuple) or isinstance(value, Exception):
        kids = kids[:LIMITS.max_collection_size]
        if len(got) > LIMITS.max_collection_size:
            raise oracle.Mismatch('too-many-children', path, {'got': len(got)})
    oracle.match_children(got, kids, path, not need,
                          lambda c, child, sn: compare_complete(table, c.vid, child, sd, path + [str(c.name)], sn,
                                                                complete), seen)

_NOHIT = object()


class C02(Prop):
    id = 'C02'
    level = 'exploration'
    rule = ('generated program (nested calls, methods, module frames, generators, threads) holding generated friendly '
            'values (scalars, nested containers, objects with name-mangled attributes, exceptions, shared and cyclic '
            'references, collections over the size limit, strings over the length limit) x one line or method '
            'tracepoint x frame_type x watches x APP_ROOT/include/exclude; non-trivial = stack depth >= 2, >= 1 '
            'container or object local and >= 1 snapshot compared; distinct = distinct recipe')
    assumptions = ['same-run reading: the oracle reads the paused frame chain immediately before the agent does',
                   'completeness of children is required only for objects whose shortest-path depth from the frame\'s '
                   'locals is <= max depth - 2; truthfulness is required for everything reported',
                   'include/exclude are given as lists of prefixes (the shape the config module itself produces)',
                   'tracepoint args on the snapshot must not contradict the configured ones (normalised args accepted)']
    quick_examples = 800
    thorough_examples = 4000
    floors = {'compared': 0.5, 'all_frame': 0.2, 'has_self': 0.15, 'watch': 0.15, 'container_local': 0.2,
              'app_stack_depth>=2': 0.3, 'hits_in_several_threads': 0.05,
              'watch_on_local_shadowing_a_global': 0.02}

    def strategy(self, tier):
        big = tier == 'thorough'
        where = st.one_of(st.tuples(st.just('stmt'), st.integers(0, 60)).map(list),
                          st.tuples(st.just('stmt'), st.integers(0, 60)).map(list),
                          st.tuples(st.just('func'), st.integers(0, 5)).map(list))
        general = st.tuples(progs.program_recipes(n_values=6, allow_raise=True, hold_bias=3), where)
        chain = progs.chain_programs(n_values=6).flatmap(lambda pt: st.tuples(
            st.just(pt[0]), st.one_of(st.just(['stmt', pt[1]]), st.just(['stmt', pt[1]]),
                                      st.just(['func', len(pt[0]['funcs']) - 1]))))
        return fd({
            'prog_where': st.one_of(general, chain, chain),
            # dict keys of any hashable type, so also keys that differ but read the same (1 and '1', None and 'None')
            'values': values.value_recipes(FRIENDLY, min_nodes=6, max_nodes=14 if big else 10, max_items=12,
                                           str_keys_only=False),
            'frame_type': st.sampled_from(['all_frame', 'single_frame', 'all_frame', 'no_frame', None, 'bogus']),
            'watches': st.one_of(
                st.lists(st.sampled_from(['n', 'n + 1', 'h1', 'h2', 'a', '[n, n]', 'self', 'self.seed', 'G_INT',
                                          'g_helper', 'G_LIST', 'G_STR']), max_size=2, unique=True),
                # several computed watches whose results are short-lived objects of the same type and size
                st.lists(st.sampled_from(['(n, 0)', '(n, 1)', '(n, 2)', 'float(n)', 'float(n + 1)', 'float(n + 2)',
                                          '[n]', '[n + 1]', 'str(n) + "a"', 'str(n) + "b"', '{"k": n}', '{"k": n + 1}']),
                         min_size=2, max_size=5, unique=True),
                # names that are module globals and, in some programs, also locals of the paused function
                st.lists(st.sampled_from(['G_INT', 'g_helper', 'G_LIST', 'n']), min_size=1, max_size=3, unique=True)),
            'route': st.sampled_from(['triggers', 'response']),
            'slow_clock': st.sampled_from([False] * 7 + [True]),
            'cfg': fd({
                'APP_ROOT': st.sampled_from(['/app', '/app/pkg', '/nowhere', '/app/pkg/mod']),
                'IN_APP_INCLUDE': st.sampled_from([[], ['/app/lib'], ['/app/other', '/app/pkg']]),
                'IN_APP_EXCLUDE': st.sampled_from([[], ['/app/pkg'], ['/app/lib/mod_b'], ['/usr']]),
            }),
        })

    def run_case(self, recipe):
        out = Outcome()
        lab.reset_world()
        recipe = dict(recipe)
        recipe['prog'], recipe['where'] = recipe['prog_where'][0], list(recipe['prog_where'][1])
        rendered = progs.render(recipe['prog'])
        vals = values.build(recipe['values'])
        while len(vals) < 6:
            vals.append(len(vals))
        where = recipe['where']
        tp = {'kind': 'line' if where[0] == 'stmt' else 'method', 'where': where, 'action': 'snapshot'}
        tps = resolve_tps({'prog': recipe['prog'], 'tps': [tp]}, rendered)
        t = tps[0]
        args = {'fire_count': '-1', 'fire_period': '0'}
        if recipe['frame_type'] is not None:
            args['frame_type'] = recipe['frame_type']
        if t['kind'] == 'method':
            args['method_name'] = t['name']
        watches = list(recipe['watches'])
        if recipe['route'] == 'response':
            triggers = convert_response([TracePointConfig(ID='tp-1', path=t['path'], line_number=max(t['line'], 0),
                                                          args=args, watches=watches)])
        else:
            triggers = [build_trigger('tp-1', t['path'], t['line'], dict(args), watches, [])]
        push = lab.RecPush()
        cfgd = recipe['cfg']
        handler, cfg, _ = lab.make_handler(triggers, custom=dict(cfgd), push=push)
        cfg.plugins = [PythonPlugin(config=cfg)]
        ft = recipe['frame_type']
        readings = {}
        problems = []
        compared = [0]
        info = {'depth': 0, 'container_local': False, 'slow': bool(recipe.get('slow_clock'))}
        if info['slow']:
            # every clock read costs 60 ms: the processing-time budget of the snapshot runs out while the stack is walked;
            # which variables still make it is C05's subject - what is reported about each frame must still be true
            lab.CLOCK.auto = 60_000_000
            out.cls('time_budget_runs_out')

        def interesting(ev, frame):
            if t['kind'] == 'line':
                return ev.event == 'line' and ev.base == t['path'] and ev.line == t['line']
            return ev.event == 'call' and ev.base == t['path'] and ev.func == t['name']

        def before(ev, frame):
            if ev.reading is not None:
                readings[ev.idx] = len(push.snapshots)

        def after(ev, frame):
            if ev.reading is None or problems:
                return
            new = push.snapshots[readings[ev.idx]:]
            if len(new) != 1:
                if frame.f_lasti > 0 and ev.event == 'call' and not new:
                    return
                problems.append(('snapshot count at tracepoint event != 1 [%s]' %
                                 ','.join(sorted(set(lab.LOGS.errors())))[:100], {'n': len(new)}))
                return
            try:
                self.compare(new[0], ev.reading, recipe, t, watches, out, info, ev)
                compared[0] += 1
            except oracle.Mismatch as m:
                problems.append(('%s' % m.kind, {'path': [str(p) for p in m.path][:8], 'detail': m.detail}))

        ip = probe.Interposer(handler.trace_call, interesting=interesting, reader=lambda fr, ev: read_chain(fr))
        ip.before_delegate = before
        ip.after_delegate = after
        try:
            progs.run_program(recipe['prog'], rendered, tracer=ip.trace, values=vals)
        finally:
            lab.CLOCK.auto = 0
        if ip.agent_raised:
            out.violate('agent raised into the program: %s' % ip.agent_raised[0][1])
        for sig, detail in problems[:1]:
            out.violate(sig, detail)
        if compared[0]:
            out.cls('compared')
            if ft == 'all_frame':
                out.cls('all_frame')
            if watches:
                out.cls('watch')
        if compared[0] and info['depth'] >= 2:
            out.cls('app_stack_depth>=2')
        if compared[0] and info['container_local']:
            out.cls('container_local')
        if len({ev.thread for ev in ip.events if ev.reading is not None}) >= 2:
            out.cls('hits_in_several_threads')
        if any(s[0] == 'set' and s[1] in ('G_INT', 'g_helper', 'G_LIST') for f in recipe['prog']['funcs']
               for s in f['body']) and any(w in ('G_INT', 'g_helper', 'G_LIST') for w in watches):
            out.cls('watch_on_local_shadowing_a_global')
        out.nontrivial = compared[0] > 0 and info['depth'] >= 2 and info['container_local']
        lab.reset_world()
        return out

    def compare(self, snap, chain, recipe, t, watches, out, info, ev):
        ft = recipe['frame_type']
        cfgd = recipe['cfg']
        M = oracle.Mismatch
        # ---- tracepoint identity -------------------------------------------------------------------
        tp = snap.tracepoint
        if tp.id != 'tp-1':
            raise M('tracepoint-id-wrong', [])
        if tp.path != t['path']:
            raise M('tracepoint-path-wrong', [])
        exp_line = t['line'] if t['kind'] == 'line' else 0
        if tp.line_no != exp_line:
            raise M('tracepoint-line-wrong', [], {'got': tp.line_no, 'expected': exp_line})
        if list(tp.watches) != watches:
            raise M('tracepoint-watches-wrong', [])
        for k, v in (('fire_count', '-1'), ('fire_period', '0')):
            if k in tp.args and str(tp.args[k]) != v:
                raise M('tracepoint-args-contradict', [k])
        if ft is not None and 'frame_type' in tp.args and tp.args['frame_type'] != ft:
            raise M('tracepoint-args-contradict', ['frame_type'])
        if snap.attributes.get('tracepoint') != 'tp-1':
            raise M('attribute-tracepoint-wrong', [])
        if snap.attributes.get('thread_name') != ev.thread:
            raise M('attribute-thread-name-wrong', [], {'got': snap.attributes.get('thread_name'), 'exp': ev.thread})
        # ---- frames --------------------------------------------------------------------------------
        if len(snap.frames) != len(chain):
            raise M('stack-length-wrong', [], {'got': len(snap.frames), 'expected': len(chain)})
        info['depth'] = max(info['depth'], sum(1 for c in chain if c['file'].startswith('/app')))
        for i, (fr, rd) in enumerate(zip(snap.frames, chain)):
            p = ['frame%d' % i]
            if fr.file_name != rd['file']:
                raise M('frame-file-wrong', p)
            if fr.method_name != rd['func']:
                raise M('frame-function-wrong', p)
            if fr.line_number != rd['line']:
                raise M('frame-line-wrong', p, {'got': fr.line_number, 'expected': rd['line']})
            if (fr.class_name or None) != rd['cls']:
                raise M('frame-class-wrong', p, {'got': fr.class_name, 'expected': rd['cls']})
            if rd['cls'] and rd['file'].startswith('/app'):
                out.cls('has_self')
            exp_app, match = oracle.app_frame_reference(rd['file'], cfgd['IN_APP_INCLUDE'],
                                                        cfgd['IN_APP_EXCLUDE'] + [__import__('sys').exec_prefix]
                                                        if False else cfgd['IN_APP_EXCLUDE'], cfgd['APP_ROOT'])
            if bool(fr.app_frame) != exp_app:
                raise M('frame-app-flag-wrong', p, {'file': rd['file'], 'got': fr.app_frame})
            exp_short = rd['file'][len(match):] if match is not None else rd['file']
            if fr.short_path != exp_short:
                raise M('frame-short-path-wrong', p, {'got': fr.short_path, 'expected': exp_short})
            want_vars = (i == 0 and ft not in ('no_frame',)) or ft == 'all_frame'
            names = [v.name for v in fr.variables]
            if not want_vars:
                if names:
                    raise M('frame-has-variables-against-frame_type', p, {'frame_type': ft})
                continue
            if info.get('slow'):
                if set(names) - set(rd['locals']):
                    raise M('frame-invented-variable', p, {'extra': sorted(set(names) - set(rd['locals']))[:4]})
            elif i == 0:
                if sorted(names) != sorted(rd['locals'].keys()):
                    raise M('frame0-variable-names-differ-from-locals', p,
                            {'missing': sorted(set(rd['locals']) - set(names))[:4],
                             'extra': sorted(set(names) - set(rd['locals']))[:4]})
            else:
                extra = set(names) - set(rd['locals'])
                if extra:
                    raise M('outer-frame-invented-variable', p, {'extra': sorted(extra)[:4]})
                if rd['file'].startswith('/app') and len(rd['locals']) <= 40 and set(names) != set(rd['locals']) \
                        and not info.get('slow'):
                    raise M('outer-frame-variables-missing', p, {'missing': sorted(set(rd['locals']) - set(names))[:4]})
            sd = shortest_depths(list(rd['locals'].values())) if i == 0 else {}
            if i == 0 and any(oracle.is_container(v) or (oracle.is_friendly(v) and type(v) not in oracle.SCALARS)
                              for v in rd['locals'].values()):
                info['container_local'] = True
            seen = set()
            for v in fr.variables:
                if v.name not in rd['locals']:
                    continue
                compare_complete(snap.var_lookup, v.vid, rd['locals'][v.name], sd, p + [v.name], seen,
                                 i == 0 and not info.get('slow'))
        # ---- watches -------------------------------------------------------------------------------
        got_w = [w for w in snap.watches if w.source == 'WATCH']
        if [w.expression for w in got_w] != watches:
            raise M('watch-list-wrong', [], {'got': [w.expression for w in got_w]})
        top = chain[0]
        frame0 = {v.name: v.vid for v in snap.frames[0].variables}
        for w in got_w:
            try:
                val = eval(w.expression, top['globals'], top['locals'])
            except BaseException:      # noqa
                continue                # failing watches are C10's subject
            if w.result is None:
                raise M('watch-good-value-reported-as-error', ['watch', w.expression], {'error': w.error})
            compare_complete(snap.var_lookup, w.result.vid, val, {}, ['watch', w.expression], set(), False)
            if w.expression in top['locals'] and w.expression in frame0 and \
                    type(val) not in (int, str, bool, type(None), float):
                if w.result.vid != frame0[w.expression]:
                    raise M('watch-on-local-not-same-id-as-local', ['watch', w.expression])


PROP = C02()
