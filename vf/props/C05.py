"""C05 - collection is bounded and spends its budget breadth-first.

Big object graphs (wide, deep, long strings, cycles, many locals in any order) on a real paused frame, with
all four limits generated and passed in the action config exactly where the snapshot action reads them.
Oracle: count / string / collection / depth bounds over the snapshot, and - from the oracle's own
shortest-path depths over the same live graph - "everything at depth <= k is recorded before anything at
depth k+1", plus the user-visible corollary that the frame's own locals are never crowded out.
"""
from hypothesis import strategies as st

from vf import lab, oracle
from vf.core import Prop, Outcome, fd

from deep.api.tracepoint.trigger import Trigger, LineLocation, LocationAction, Location, build_trigger
from deep.grpc import convert_response
from deepproto.proto.tracepoint.v1.tracepoint_pb2 import TracePointConfig

PATH, LINE = 'c05_target.py', 3


class Obj:
    pass


class Builder:
    def __init__(self):
        self.k = 0

    def fresh_int(self):
        self.k += 1
        return int(str(100000 + self.k))       # a new int object every time

    def build(self, spec, made):
        kind = spec[0]
        if kind == 'int':
            return self.fresh_int()
        if kind == 'str':
            self.k += 1
            return ('%d-' % self.k) + (spec[2] if len(spec) > 2 else 'x') * spec[1]
        if kind == 'list':
            return [self.build(spec[2], made) for _ in range(spec[1])]
        if kind == 'tuple':
            return tuple(self.build(spec[2], made) for _ in range(spec[1]))
        if kind == 'set':
            return {self.fresh_int() for _ in range(spec[1])}
        if kind == 'dict':
            return {'k%d' % i: self.build(spec[2], made) for i in range(spec[1])}
        if kind == 'obj':
            o = Obj()
            for i in range(spec[1]):
                setattr(o, 'f%d' % i, self.build(spec[2], made))
            return o
        if kind == 'nest':
            v = self.build(spec[2], made)
            for i in range(spec[1]):
                v = [v] if i % 2 == 0 else {'in': v}
            return v
        if kind == 'cyc':
            a = [self.fresh_int()]
            b = {'back': a}
            a.append(b)
            return a
        if kind == 'selfcyc':
            a = []
            a.append(a)
            return a
        if kind == 'ref':
            return made[spec[1] % len(made)] if made else self.fresh_int()
        if kind == 'strobj':
            how = spec[2] if len(spec) > 2 else 'plain'

            class Text(str):
                # what __str__ may return: a str, or an instance of a subclass of str
                pass

            class OwnSlices(str):
                def __getitem__(self, item):
                    return self

            class LongStr:
                def __init__(self, n):
                    self.n = n

                def __str__(self):
                    text = 'S' * self.n
                    return {'plain': str, 'sub': Text, 'own_slices': OwnSlices}[how](text)
            return LongStr(spec[1])
        if kind == 'strsub':
            class Label(str):
                pass

            class Whole(str):
                def __getitem__(self, item):
                    return self
            return (Whole if spec[2] else Label)('L' * spec[1])
        raise ValueError(kind)


def leaf():
    # text of every width a str can hold: ASCII, Latin-1, astral, NUL, and lone surrogates (what surrogateescape yields)
    return st.one_of(st.just(['int']), st.tuples(st.just('str'), st.sampled_from([0, 3, 10, 70, 2000]),
                                                 st.sampled_from(['x', 'x', '\xe9', '\U0001f600', '\x00', '\udc80'])
                                                 ).map(list))


def spec_strategy(big):
    wide = st.sampled_from([0, 1, 2, 5, 12, 40] + ([300] if big else []))
    inner = st.one_of(leaf(), st.tuples(st.just('list'), st.integers(0, 4), leaf()).map(list),
                      st.tuples(st.just('dict'), st.integers(0, 4), leaf()).map(list))
    return st.one_of(
        leaf(), leaf(),
        st.tuples(st.just('list'), wide, inner).map(list),
        st.tuples(st.just('tuple'), wide, inner).map(list),
        st.tuples(st.just('set'), wide).map(list),
        st.tuples(st.just('dict'), wide, inner).map(list),
        st.tuples(st.just('obj'), st.integers(0, 8), inner).map(list),
        st.tuples(st.just('nest'), st.integers(1, 12), inner).map(list),
        st.just(['cyc']), st.just(['selfcyc']),
        st.tuples(st.just('ref'), st.integers(0, 10)).map(list),
        st.tuples(st.just('strobj'), st.sampled_from([5, 100, 3000])).map(list),
        st.tuples(st.just('strobj'), st.sampled_from([5, 100, 3000]),
                  st.sampled_from(['sub', 'own_slices'])).map(list),
        st.tuples(st.just('strsub'), st.sampled_from([0, 5, 100, 3000]), st.booleans()).map(list),
    )


def shortest_depths(roots, limits):
    """id -> (depth, obj) by the statement's children rule; locals are depth 1. Sets' elements are not ordered
    by the statement, so they are not entered here (their count is still bounded separately)."""
    depth = {}
    frontier = []
    for v in roots:
        if id(v) not in depth:
            depth[id(v)] = (1, v)
            frontier.append(v)
    d = 1
    while frontier:
        nxt = []
        for v in frontier:
            kids = oracle.children_of(v)
            if kids in (None, 'unordered'):
                continue
            if type(v) in (list, tuple) or isinstance(v, Exception):
                kids = kids[:limits.max_collection_size]
            for _, c in kids:
                if id(c) not in depth:
                    depth[id(c)] = (d + 1, c)
                    nxt.append(c)
        frontier = nxt
        d += 1
    return depth


def map_recorded(snap, frame_vars, frame_locals):
    """Joint walk: variable id -> live object, following names from the frame's locals."""
    vid_obj = {}
    todo = []
    for v in frame_vars:
        if v.name in frame_locals:
            todo.append((v.vid, frame_locals[v.name]))
    while todo:
        vid, obj = todo.pop()
        if vid in vid_obj:
            continue
        vid_obj[vid] = obj
        var = snap.var_lookup.get(vid)
        if var is None:
            continue
        kids = oracle.children_of(obj)
        if kids in (None, 'unordered'):
            continue
        by = {}
        for names, c in kids:
            for nm in names:
                by[nm] = c
        for c in var.children:
            if c.name in by:
                todo.append((c.vid, by[c.name]))
    return vid_obj


def max_depth_of(snap, frame_vars):
    """Longest *shortest* id-path from a frame variable (cycle-safe BFS over the table)."""
    depth = {}
    frontier = [v.vid for v in frame_vars]
    for v in frontier:
        depth[v] = 1
    d = 1
    while frontier:
        nxt = []
        for vid in frontier:
            var = snap.var_lookup.get(vid)
            if var is None:
                continue
            for c in var.children:
                if c.vid not in depth:
                    depth[c.vid] = d + 1
                    nxt.append(c.vid)
        frontier = nxt
        d += 1
    return max(depth.values()) if depth else 0


DEFAULTS = {'MAX_VARIABLES': 1000, 'MAX_STRING_LENGTH': 1024, 'MAX_COLLECTION_SIZE': 10, 'MAX_VAR_DEPTH': 5}


class C05(Prop):
    id = 'C05'
    level = 'exploration'
    rule = ('1-30 locals built from specs (wide lists/tuples/sets/dicts up to 300, nesting up to 12, strings up to '
            '3000 chars, objects whose str() is long, cycles, aliases) in generated order x the four limits '
            '(MAX_VARIABLES 0-60, MAX_STRING_LENGTH 0-64, MAX_COLLECTION_SIZE 0-12, MAX_VAR_DEPTH 1-7) x watches on big '
            'values; non-trivial = the graph exceeds at least one limit; distinct = distinct recipe')
    assumptions = ['limits are given both ways: in the LocationAction config where SnapshotActionContext.collection_config reads them, and as tracepoint arguments (text) through build_trigger',
                   'depth: locals count as depth 1; "at most max depth" is read as <= (the weakest reading)',
                   'set elements are not ordered by the statement: they are count-checked only',
                   'the 100 ms processing budget is neutralised by the virtual clock except where it is jumped on purpose']
    quick_examples = 1000
    thorough_examples = 5000
    fuzz_runs = 8000
    floors = {'over_variables': 0.25, 'over_string': 0.15, 'over_collection': 0.15, 'over_depth': 0.1}

    def strategy(self, tier):
        big = tier == 'thorough'
        return fd({
            'locals': st.lists(spec_strategy(big), min_size=1, max_size=30 if big else 14),
            'limits': fd({
                'MAX_VARIABLES': st.one_of(st.integers(0, 60), st.integers(0, 12), st.just(1000)),
                'MAX_STRING_LENGTH': st.one_of(st.integers(0, 64), st.just(1024)),
                'MAX_COLLECTION_SIZE': st.one_of(st.integers(0, 12), st.just(10)),
                'MAX_VAR_DEPTH': st.one_of(st.integers(1, 7), st.just(5)),
            }),
            'watches': st.lists(st.sampled_from(['list(range(50))', 'big', "'w' * 500", 'v0', '[v0, [v0]]']),
                                max_size=2),
            'frame_type': st.sampled_from(['single_frame', 'single_frame', 'all_frame']),
            'jump_clock': st.integers(0, 9).map(lambda x: x == 0),
            # a deferred snapshot: completed by the return event with the returned value captured into the same table
            'capture': st.sampled_from([None, None, 'small', 'big', 'big']),
            # the fields of the snapshot's log message are evaluated and recorded on the same snapshot
            # where the limits are put: into the action's configuration directly, or into the tracepoint's arguments
            'route': st.sampled_from(['config', 'args', 'response']),
            'limit_texts': st.dictionaries(
                st.sampled_from(['MAX_VARIABLES', 'MAX_STRING_LENGTH', 'MAX_COLLECTION_SIZE', 'MAX_VAR_DEPTH']),
                st.sampled_from(['plain', 'plain', 'padded', 'word', 'empty', 'fraction', 'inf', 'negative', 'no_limit']),
                max_size=2),
            'log_fields': st.one_of(st.just([]), st.lists(st.sampled_from(
                ['list(big)', "'q' * 90", 'tuple(big)', 'v0', '[[k] for k in big]', 'str(big)']), max_size=3)),
        })

    def run_case(self, recipe):
        out = Outcome()
        lab.reset_world()
        b = Builder()
        made = []
        for spec in recipe['locals']:
            made.append(b.build(spec, made))
        frame_locals = {'v%d' % i: v for i, v in enumerate(made)}
        frame_locals['big'] = list(range(1000, 1040))
        lim = dict(recipe['limits'])
        cfg = dict(lim)
        route = recipe.get('route') or 'config'
        if route != 'config':
            # limits are text on this route, written the way people and other programs write numbers; one that cannot
            # be read as a whole number >= 0 leaves that limit at its default - and only that one
            for name, how in (recipe.get('limit_texts') or {}).items():
                n = lim[name]
                text, effective = {
                    'plain': (str(n), n), 'padded': (' %d ' % n, n), 'word': ('many', DEFAULTS[name]),
                    'empty': ('', DEFAULTS[name]), 'fraction': ('%d.5' % n, DEFAULTS[name]),
                    'inf': ('inf', DEFAULTS[name]), 'negative': ('-1', DEFAULTS[name]),
                    'no_limit': ('18446744073709551615', 18446744073709551615),
                }[how]
                cfg[name], lim[name] = text, effective
                if how != 'plain':
                    out.cls('limit_written_unusually')
        limits = oracle.Limits(lim['MAX_STRING_LENGTH'], lim['MAX_COLLECTION_SIZE'], lim['MAX_VAR_DEPTH'],
                               lim['MAX_VARIABLES'])
        cfg.update({'watches': list(recipe['watches']), 'frame_type': recipe['frame_type'], 'fire_count': '-1',
                    'fire_period': '0'})
        if recipe.get('log_fields'):
            cfg['log_msg'] = 'm ' + ' '.join('{%s}' % f for f in recipe['log_fields'])
            out.cls('log_fields')
        if recipe.get('capture'):
            cfg['stage'] = 'line_capture'
            out.cls('deferred_capture')
        if route in ('args', 'response'):
            # the way a user configures a tracepoint: its arguments (text, as the service and register_tracepoint take
            # them), turned into a trigger by the agent itself - from a poll response, or as register_tracepoint does
            out.cls('limits_given_as_tracepoint_arguments')
            args = {k: str(v) for k, v in cfg.items() if k != 'watches'}
            try:
                if route == 'response':
                    out.cls('tracepoint_from_a_poll_response')
                    trigs = convert_response([TracePointConfig(ID='tp', path=PATH, line_number=LINE, args=args,
                                                               watches=list(recipe['watches']))])
                    if len(trigs) != 1:
                        out.violate('a tracepoint of a poll response was dropped because of how a limit is written',
                                    {'args': {k: v for k, v in args.items() if k.startswith('MAX_')}})
                        return out
                    trig = trigs[0]
                else:
                    trig = build_trigger('tp', PATH, LINE, args, list(recipe['watches']), [])
            except BaseException as e:      # noqa
                out.violate('building the tracepoint from its arguments raised %s' % type(e).__name__,
                            {'args': {k: v for k, v in args.items() if k.startswith('MAX_')}})
                return out
        else:
            act = LocationAction('tp', None, cfg, LocationAction.ActionType.Snapshot)
            trig = Trigger(LineLocation(PATH, LINE, Location.Position.START), [act])
        handler, _, push = lab.make_handler([trig])
        if recipe['jump_clock']:
            lab.CLOCK.auto = 60_000_000          # 60 ms per clock read: the processing budget runs out mid-way
            out.cls('time_budget_exceeded')
        gen = lab.frame_at(PATH, LINE, 'target', frame_locals)
        try:
            handler.trace_call(gen.gi_frame, 'line', None)
            if recipe.get('capture'):
                returned = 7 if recipe['capture'] == 'small' else [[i, str(i) * 3, {'k': [i]}] for i in range(60)]
                handler.trace_call(gen.gi_frame, 'return', returned)
        except BaseException as e:      # noqa
            out.violate('trace_call raised %s' % lab.exc_bucket(e))
        finally:
            lab.CLOCK.auto = 0
            gen.close()
        if len(push.snapshots) != 1:
            out.violate('no snapshot delivered [%s]' % ','.join(sorted(set(lab.LOGS.errors())))[:160])
            return out
        snap = push.snapshots[0]
        table = snap.var_lookup
        fvars = snap.frames[0].variables
        n_locals = len(frame_locals)
        depths = shortest_depths(list(frame_locals.values()), limits)
        # ---- what does the graph exceed? (non-triviality) ----------------------------------------
        if len(depths) > limits.max_variables:
            out.cls('over_variables')
        if any(type(o) is str and len(o) > limits.max_string_length for _, o in depths.values()) or \
                any(s[0] in ('strobj', 'strsub') and s[1] > limits.max_string_length for s in recipe['locals']):
            out.cls('over_string')
        if any(type(o) in oracle.LISTLIKE and len(o) > limits.max_collection_size for _, o in depths.values()):
            out.cls('over_collection')
        if any(d > limits.max_var_depth for d, _ in depths.values()):
            out.cls('over_depth')
        if recipe['watches']:
            out.cls('with_watches')
        out.nontrivial = bool(out.classes & {'over_variables', 'over_string', 'over_collection', 'over_depth'})
        # ---- bounds ------------------------------------------------------------------------------
        if len(table) > limits.max_variables + 1:
            src = 'with watches' if recipe['watches'] else 'frame only'
            out.violate('variable count exceeds MAX_VARIABLES+1 (%s)' % src,
                        {'count': len(table), 'max': limits.max_variables})
        watch_vids = set()
        frame_vids = set()
        stack = [v.vid for f in snap.frames for v in f.variables]
        while stack:
            vid = stack.pop()
            if vid in frame_vids or vid not in table:
                continue
            frame_vids.add(vid)
            stack.extend(c.vid for c in table[vid].children)
        for vid, var in table.items():
            origin = 'frame' if vid in frame_vids else 'watch'
            if len(var.value) > limits.max_string_length:
                out.violate('string longer than MAX_STRING_LENGTH (%s value)' % origin,
                            {'len': len(var.value), 'max': limits.max_string_length, 'type': var.type})
                break
            if var.type in ('list', 'tuple', 'set', 'frozenset') and len(var.children) > limits.max_collection_size:
                out.violate('more children than MAX_COLLECTION_SIZE (%s value)' % origin,
                            {'children': len(var.children), 'max': limits.max_collection_size})
                break
        vid_obj = map_recorded(snap, fvars, frame_locals)
        for vid, obj in vid_obj.items():
            var = table.get(vid)
            if var is None or oracle.is_container(obj):
                continue
            try:
                full = str.__str__(str(obj))       # the characters, whatever class carries them
            except BaseException:      # noqa
                continue
            if var.value != full[:limits.max_string_length]:
                out.violate('text is not the (cut) string form of the value', {'type': var.type})
                break
            if bool(var.truncated) != (len(full) > limits.max_string_length):
                out.violate('truncated flag wrong', {'len': len(full), 'max': limits.max_string_length,
                                                     'flag': var.truncated})
                break
        md = max_depth_of(snap, fvars)
        if md > limits.max_var_depth:
            out.violate('nesting deeper than MAX_VAR_DEPTH', {'depth': md, 'max': limits.max_var_depth})
        # ---- breadth first -----------------------------------------------------------------------
        if not recipe['jump_clock']:
            recorded_ids = {id(o) for o in vid_obj.values()}
            rec_depths = [depths[i][0] for i in recorded_ids if i in depths]
            deepest = max(rec_depths) if rec_depths else 0
            if deepest >= 2:
                for i, (d, o) in depths.items():
                    if d <= deepest - 1 and d <= limits.max_var_depth and i not in recorded_ids:
                        kind = 'a local of the frame' if d == 1 else 'a depth-%d value' % min(d, 3)
                        out.violate('not breadth-first: %s is missing while deeper values are recorded' % kind,
                                    {'missing_depth': d, 'deepest_recorded': deepest, 'type': type(o).__name__})
                        break
            if limits.max_variables >= n_locals and limits.max_var_depth >= 2:
                names = {v.name for v in fvars}
                if names != set(frame_locals):
                    out.violate('locals crowded out although MAX_VARIABLES >= number of locals',
                                {'missing': sorted(set(frame_locals) - names)[:5], 'max': limits.max_variables,
                                 'n_locals': n_locals})
        lab.reset_world()
        return out


PROP = C05()
