"""C15 - deferred work (spans, captures) is completed exactly once, in its own thread.

Generated programs built around invocations - recursion, nesting, caught and propagating exceptions, finally,
generators - carry method/line span tracepoints and method/line capture snapshots; 1-3 program threads run them
(sequentially, so thread idents are reused).  The interposer's invocation stack and the recording span plugin /
push service write one timeline; every opening must have exactly one completion, in a later trace event, while
the opening invocation is still on its thread's stack (or at its own return/exception), on the same thread;
a captured result must be what that invocation returned or raised; nothing stays pending for a thread that
has ended.
"""
import threading

import sys

from hypothesis import strategies as st

from vf import lab, probe
from vf.core import Prop, Outcome, HarnessError, fd

from deep.api.tracepoint.trigger import Trigger, LineLocation, FunctionLocation, LocationAction, Location, \
    build_trigger
from deep.api.tracepoint.constants import STAGE, METHOD_CAPTURE, LINE_CAPTURE

PATH = '/app/c15_prog.py'
BASE = 'c15_prog.py'


def render(recipe):
    """-> source, info per function: {'def': line, 'work': line}"""
    lines = ['COUNTER = [0]', 'def nxt():', '    COUNTER[0] += 1', '    return COUNTER[0]', 'def step(x):',
             '    return x - 1']
    info = []
    for i, f in enumerate(recipe['funcs']):
        name = 'f%d' % i
        d = {'name': name}
        if f['kind'] == 'gen':
            lines.append('def %s(n):' % name)
            d['def'] = len(lines)
            lines.append('    tag = "%s-%%d-%%d" %% (n, nxt())' % name)
            d['work'] = len(lines)
            lines.append('    for i in range(n + 1):')
            lines.append('        yield "y-" + tag + "-%d" % i')
            if f['raises'] == 'always':
                lines.append('    raise ValueError("exc-" + tag)')
            lines.append('    return "ret-" + tag')
            d['last'] = len(lines)
            info.append(d)
            continue
        lines.append('def %s(n):' % name)
        d['def'] = len(lines)
        lines.append('    tag = "%s-%%d-%%d" %% (n, nxt())' % name)
        d['work'] = len(lines)
        if f['kind'] == 'loop1':
            lines.append('    m = n + 2')
            lines.append('    while m > 0: m = step(m)')        # a loop whose body is on the same line
            d['work'] = len(lines)
        if f.get('reconf'):
            lines.append('    RECONF()')                        # the service removes every tracepoint right now
        if f.get('pause'):
            lines.append('    PAUSE()')                         # other program threads run while this invocation is live
        lines.append('    acc = [tag]')
        ind = '    '
        if f['finally']:
            lines.append('    try:')
            ind = '        '

        def call(txt):
            if f['catches']:
                lines.append('%stry:' % ind)
                lines.append('%s    acc.append(%s)' % (ind, txt))
                lines.append('%sexcept ValueError as err:' % ind)
                lines.append('%s    acc.append("caught")' % ind)
            else:
                lines.append('%sacc.append(%s)' % (ind, txt))
        if f['kind'] == 'rec':
            lines.append('%sif n > 0:' % ind)
            save = ind
            ind = ind + '    '
            call('%s(n - 1)' % name)
            d['call'] = len(lines) - (2 if f['catches'] else 0)     # the line that makes the nested call
            ind = save
        for c in f['calls']:
            if c <= i or c >= len(recipe['funcs']):
                continue
            cf = recipe['funcs'][c]
            if cf['kind'] == 'gen':
                call('list(f%d(n %% 2))' % c)
            else:
                call('f%d(n %% 3)' % c)
        if f['raises'] == 'always' or f['raises'] == 'leaf':
            cond = 'True' if f['raises'] == 'always' else 'n == 0'
            lines.append('%sif %s:' % (ind, cond))
            lines.append('%s    raise ValueError("exc-" + tag)' % ind)
        lines.append('%sreturn "ret-" + tag' % ind)
        d['last'] = len(lines)
        if f['finally']:
            lines.append('    finally:')
            lines.append('        acc.append("fin")')
        info.append(d)
    return '\n'.join(lines) + '\n', info


def as_received(text):
    # an argument value as it arrives from the service: an equal string, not the constant's own object
    return ''.join(list(text))


class C15(Prop):
    id = 'C15'
    level = 'exploration'
    rule = ('program of 1-4 functions (plain / self-recursive / generator; raising never / at the leaf / always; catching '
            'callee failures or not; with finally) x 1-4 tracepoints (method span, line span, method capture, line capture; '
            'fire_count 1 or unlimited) x 1-3 program threads run one after the other; non-trivial = >= 2 openings '
            'overlapping on one thread (nesting / recursion), or an exception unwinding through an opening invocation, or '
            '>= 2 threads; distinct = distinct recipe')
    assumptions = ['early completion inside the opening invocation is allowed by the statement; only "after it ended", '
                   '"twice", "never", "other thread" and "wrong captured value" are violations',
                   'a generator resume -> yield segment is the invocation unit, as CPython delivers it',
                   'capture tracepoints are built both ways: stage in the LocationAction config directly, and as a tracepoint argument through build_trigger (which dropped it before 68e01e0)',
                   'program threads run one at a time; overlapping program threads are not generated here',
                   'a captured exception may be represented as the instance or as the (type, value, traceback) triple']
    quick_examples = 2500
    thorough_examples = 8000
    floors = {'overlapping_openings': 0.2, 'exception_through_opening': 0.15, 'several_threads': 0.2, 'capture': 0.3,
              'config_emptied_mid_invocation': 0.05, 'threads_overlap_an_open_invocation': 0.05}

    def strategy(self, tier):
        func = fd({
            'kind': st.sampled_from(['plain', 'rec', 'rec', 'gen', 'loop1']),
            'reconf': st.sampled_from([False, False, False, True]),
            'pause': st.sampled_from([False, False, True]),
            'raises': st.sampled_from(['never', 'never', 'leaf', 'always']),
            'catches': st.booleans(), 'finally': st.booleans(),
            'calls': st.lists(st.integers(1, 3), max_size=2, unique=True),
        })
        tp = fd({'func': st.integers(0, 3),
                                    'kind': st.sampled_from(['method_span', 'line_span', 'method_capture', 'line_capture',
                                                             'method_capture']),
                                    'fire_count': st.sampled_from(['1', '-1', '-1']),
                                    # line tracepoints sit on the first line of the function, or on its last one (the
                                    # return statement: what they opened completes on the same event as the method's)
                                    'at': st.sampled_from(['work', 'work', 'last', 'call']),
                                    # how a capture tracepoint is built: action config directly, or from arguments
                                    'route': st.sampled_from(['config', 'config', 'args'])})
        # more openings pending on one thread than the interpreter allows frames: every level of a deep recursion holds
        # several (a span and a capture on the function, a span and a capture on its first line)
        kinds4 = st.lists(st.sampled_from(['method_span', 'line_span', 'method_capture', 'line_capture']), min_size=4,
                          max_size=4)
        many_pending = st.builds(
            lambda kinds, raises, fin, depth: {
                'funcs': [{'kind': 'rec', 'reconf': False, 'pause': False, 'raises': raises, 'catches': False,
                           'finally': fin, 'calls': []}],
                'tps': [{'func': 0, 'kind': k, 'fire_count': '-1', 'at': 'call'} for k in kinds],
                'threads': [[0, depth]], 'span_procs': 1, 'reclimit': 'tight'},
            kinds4, st.sampled_from(['never', 'never', 'leaf']), st.booleans(), st.sampled_from([140, 160]))
        general = self._general(func, tp)
        return st.integers(0, 499).flatmap(lambda i: many_pending if i in (123, 257) else general)

    def _general(self, func, tp):
        return fd({
            'funcs': st.lists(func, min_size=1, max_size=4),
            'tps': st.lists(tp, min_size=1, max_size=4),
            # (function, argument): the argument is the recursion depth of self-recursive functions - mostly shallow, now
            # and then several hundred levels (as many pending openings on one thread)
            'threads': st.lists(st.tuples(st.integers(0, 3), st.sampled_from([0, 1, 2, 3] * 16 + [270])).map(list),
                                min_size=1, max_size=3),
            # how many span processors are installed: each opens (and must get closed) a span of its own per hit
            'span_procs': st.sampled_from([1, 1, 2, 3]),
        })

    def run_case(self, recipe):
        out = Outcome()
        lab.reset_world()
        funcs = recipe['funcs']
        if funcs[0]['kind'] == 'gen':
            funcs = [dict(funcs[0], kind='plain')] + funcs[1:]
            recipe = dict(recipe, funcs=funcs)
        src, info = render(recipe)
        code = compile(src, PATH, 'exec')
        lab.register_source(PATH, src)
        triggers = []
        tpdefs = {}
        for i, tp in enumerate(recipe['tps']):
            fi = info[tp['func'] % len(info)]
            tid = 'tp%d' % i
            k = tp['kind']
            at_ = tp.get('at') or 'work'
            base_cfg = {'fire_count': tp['fire_count'], 'fire_period': '0'}
            if k == 'method_span':
                extra = {}
                if tp.get('route') == 'args' and tp.get('at') == 'last':
                    # the same span asked for with an explicit stage (as a UI that always sends one would)
                    extra = {STAGE: as_received('method_end')}
                    out.cls('method_span_with_an_explicit_stage')
                trig = build_trigger(tid, BASE, -1, dict(base_cfg, span='method', method_name=fi['name'],
                                                         snapshot='no_collect', **extra), [], [])
            elif k == 'line_span':
                trig = build_trigger(tid, BASE, fi.get(at_, fi['work']), dict(base_cfg, span='line', snapshot='no_collect'), [], [])
            elif tp.get('route') == 'args' and k == 'method_capture':
                # configured the way the service does it: the stage is an argument of the tracepoint
                trig = build_trigger(tid, BASE, -1, dict(base_cfg, **{STAGE: as_received(METHOD_CAPTURE),
                                                                      'method_name': fi['name']}), [], [])
                out.cls('capture_stage_given_as_tracepoint_argument')
            elif tp.get('route') == 'args':
                trig = build_trigger(tid, BASE, fi.get(at_, fi['work']),
                                     dict(base_cfg, **{STAGE: as_received(LINE_CAPTURE)}), [], [])
                out.cls('capture_stage_given_as_tracepoint_argument')
            elif k == 'method_capture':
                act = LocationAction(tid, None, dict(base_cfg, **{STAGE: as_received(METHOD_CAPTURE), 'watches': []}),
                                     LocationAction.ActionType.Snapshot)
                trig = Trigger(FunctionLocation(BASE, fi['name'], Location.Position.CAPTURE), [act])
            else:
                act = LocationAction(tid, None, dict(base_cfg, **{STAGE: as_received(LINE_CAPTURE), 'watches': []}),
                                     LocationAction.ActionType.Snapshot)
                trig = Trigger(LineLocation(BASE, fi.get(at_, fi['work']), Location.Position.CAPTURE), [act])
            triggers.append(trig)
            tpdefs[tid] = (k, fi)
            if 'capture' in k:
                out.cls('capture')
        spanps = [lab.RecSpanProcessor(name='RecSpanProcessor%d' % i) for i in range(recipe.get('span_procs') or 1)]
        if len(spanps) > 1:
            out.cls('several_span_processors')
        push = lab.RecPush()
        old_reclimit = sys.getrecursionlimit()
        if recipe.get('reclimit') == 'tight':
            # an application that runs with a recursion limit just above what it needs (set before the agent starts)
            here, f = 0, sys._getframe()
            while f is not None:
                here, f = here + 1, f.f_back
            sys.setrecursionlimit(max(here + 60, max(a for _, a in recipe['threads']) + 120))
            out.cls('tight_recursion_limit')
        handler, cfg, _ = lab.make_handler(triggers, plugins=spanps, push=push)
        # ---- timeline ---------------------------------------------------------------------------------------
        cur = {}                 # thread name -> current Event
        stacks = {}              # event idx -> tuple of inv ids on the thread's stack
        inv_result = {}          # inv id -> ('return', value) | ('exception', value)
        inv_had_exception = {}
        inv_seen_exceptions = {}
        opens = []               # dict(kind, tp, thread, ev, inv, obj)
        closes = []
        pushes = []

        def before(ev, frame):
            cur[ev.thread] = ev
            stacks[ev.idx] = tuple(i for i, _ in ip._stacks.get(ev.thread, []))
            if ev.base == BASE:
                if ev.event == 'return':
                    # generated functions never return None: a None result is CPython's return event of an unwinding
                    # frame, and the last exception seen in that invocation is the one it raised
                    if ev.arg is None and inv_had_exception.get(ev.inv) is not None:
                        inv_result[ev.inv] = ('exception', inv_had_exception[ev.inv])
                    else:
                        inv_result[ev.inv] = ('return', ev.arg)
                elif ev.event == 'exception':
                    inv_had_exception[ev.inv] = ev.arg[1] if isinstance(ev.arg, tuple) else ev.arg
                    inv_seen_exceptions.setdefault(ev.inv, []).append(str(inv_had_exception[ev.inv]))

        def on_span(what, span):
            ev = cur.get(threading.current_thread().name)
            rec = {'what': what, 'span': span, 'thread': threading.current_thread().name, 'ev': ev}
            (opens if what == 'open' else closes).append(rec)

        def on_push(snap):
            pushes.append({'snap': snap, 'thread': threading.current_thread().name,
                           'ev': cur.get(threading.current_thread().name)})
        for spanp in spanps:
            spanp.on_event = on_span
        push.on_push = on_push
        ip = probe.Interposer(handler.trace_call, keep_arg=True)
        ip.before_delegate = before
        leftovers = []
        idents = []

        def thread_main(entry, arg, ns, results):
            try:
                results.append(('ok', ns[entry](arg)))
            except BaseException as e:      # noqa
                results.append(('exc', type(e).__name__))

        reconf_at = []

        def RECONF():
            if not reconf_at:
                reconf_at.append(len(ip.events))
                handler.new_config([])
                out.cls('config_emptied_mid_invocation')

        later_threads = []
        paused_once = []

        def PAUSE():
            # the remaining program threads run to completion while the calling invocation is suspended here
            if paused_once or not later_threads:
                return
            paused_once.append(1)
            out.cls('threads_overlap_an_open_invocation')
            import sys as _sys
            old_t = _sys.gettrace()
            _sys.settrace(None)
            try:
                while later_threads:
                    run_thread(*later_threads.pop(0))
            finally:
                _sys.settrace(old_t)

        ns = {'__name__': 'c15_prog', 'RECONF': RECONF, 'PAUSE': PAUSE}
        exec(code, ns)
        old = threading.gettrace()
        threading.settrace(ip.trace)
        def run_thread(ti, fidx, arg):
                fi = info[fidx % len(info)]
                entry = fi['name']
                if recipe['funcs'][fidx % len(info)]['kind'] == 'gen':
                    ns['_drain_%s' % entry] = (lambda e: (lambda n: list(ns[e](n))))(entry)
                    entry = '_drain_%s' % entry
                results = []
                t = threading.Thread(target=thread_main, args=(entry, arg, ns, results), name='prog-%d' % ti)
                t.start()
                t.join(240)
                if t.is_alive():
                    raise HarnessError('program thread did not finish')
                idents.append(t.ident)
                store = lab.thread_local_store()
                if t.ident in store and len(store[t.ident]) > 0:
                    leftovers.append((t.name, len(store[t.ident])))

        try:
            later_threads.extend((ti, fidx, arg) for ti, (fidx, arg) in enumerate(recipe['threads']))
            while later_threads:
                run_thread(*later_threads.pop(0))
        finally:
            threading.settrace(old)
            sys.setrecursionlimit(old_reclimit)
        # ---- classes ----------------------------------------------------------------------------------------
        if len(recipe['threads']) >= 2:
            out.cls('several_threads')
        if len(set(idents)) < len(idents):
            out.cls('thread_ident_reused')
        open_span_invs = [(o['thread'], o['ev'].inv, o['ev'].idx) for o in opens if o['ev'] is not None]
        by_thread = {}
        for th, inv, idx in open_span_invs:
            by_thread.setdefault(th, []).append(inv)
        deferred = [p for p in pushes]
        if any(len(v) >= 2 for v in by_thread.values()) or len(deferred) >= 2:
            out.cls('overlapping_openings')
        if any(v[0] == 'exception' for v in inv_result.values()):
            out.cls('exception_through_opening')
        out.nontrivial = bool(opens or pushes) and bool(out.classes & {'overlapping_openings', 'exception_through_opening',
                                                                      'several_threads'})
        if ip.agent_raised:
            out.violate('agent raised into the program: %s' % ip.agent_raised[0][1])
        # ---- spans: exactly once, later event, same thread, opening invocation still live -----------------------
        for o in opens:
            span = o['span']
            mine = [c for c in closes if c['span'] is span]
            kind = tpdefs.get(span.tp_id, ('?',))[0]
            if len(mine) == 0:
                out.violate('%s: a span that was opened is never closed' % kind, {'tp': span.tp_id})
                break
            if len(mine) > 1:
                out.violate('%s: a span closed more than once' % kind, {'tp': span.tp_id})
                break
            c = mine[0]
            if c['thread'] != o['thread']:
                out.violate('%s: span closed on another thread than the one that opened it' % kind)
                break
            if o['ev'] is None or c['ev'] is None:
                continue
            if c['ev'].idx <= o['ev'].idx:
                out.violate('%s: span closed in the same trace event that opened it' % kind)
                break
            if o['ev'].inv not in stacks.get(c['ev'].idx, ()):
                out.violate('%s: span closed after the invocation that opened it had ended' % kind,
                            {'opened_in': o['ev'].func, 'closed_at': [c['ev'].event, c['ev'].func, c['ev'].line]})
                break
        # ---- deferred snapshots -------------------------------------------------------------------------------------
        seen_ids = set()
        for p in pushes:
            snap = p['snap']
            kind, fi = tpdefs.get(snap.tracepoint.id, ('?', None))
            if id(snap) in seen_ids:
                out.violate('%s: deferred snapshot delivered twice' % kind)
                break
            seen_ids.add(id(snap))
            if p['ev'] is None:
                continue
            caps = [w for w in snap.watches if w.source == 'CAPTURE']
            # the opening event: the frame-0 location recorded in the snapshot + same thread, latest earlier event
            f0 = snap.frames[0]
            want_event = 'call' if kind == 'method_capture' else 'line'
            cands = [e for e in ip.events if e.thread == p['thread'] and e.idx < p['ev'].idx and e.event == want_event and
                     e.base == BASE and e.func == f0.method_name and (kind == 'method_capture' or e.line == f0.line_number)]
            if not cands:
                out.violate('%s: snapshot delivered in the trace event that opened it, or by another thread' % kind)
                break
            # identify the opening invocation by the per-invocation tag local (line captures) or take candidates
            opening = None
            tagv = [v for v in f0.variables if v.name == 'tag']
            if tagv and tagv[0].vid in snap.var_lookup:
                tag = snap.var_lookup[tagv[0].vid].value
                for e in cands:
                    r = inv_result.get(e.inv)
                    if r and isinstance(r[1], (str, BaseException)) and tag in str(r[1]):
                        opening = e
            possible = [opening] if opening is not None else cands
            if not any(e.inv in stacks.get(p['ev'].idx, ()) for e in possible):
                out.violate('%s: deferred snapshot delivered after the invocation that opened it had ended' % kind)
                break
            if kind in ('method_capture', 'line_capture') and caps:
                if len(caps) > 1:
                    out.violate('%s: more than one captured result on a snapshot' % kind)
                    break
                w = caps[0]
                texts = self.texts_below(snap, w.result.vid if w.result else None)
                ok = False
                for e in possible:
                    r = inv_result.get(e.inv)
                    if r is None:
                        ok = True        # the invocation never finished inside the run (e.g. abandoned generator)
                        continue
                    exp_kind, val = r
                    exp_text = str(val.args[0]) if isinstance(val, BaseException) and val.args else str(val)
                    if w.expression == exp_kind and any(exp_text == t or exp_text in t for t in texts):
                        ok = True
                if not ok and kind == 'method_capture':
                    e = possible[-1]
                    r = inv_result.get(e.inv)
                    earlier = inv_seen_exceptions.get(e.inv, [])[:-1]
                    # (an unwinding frame also delivers a return event; that one can still end an outer level's snapshot)
                    own_opening = recipe['tps'][int(snap.tracepoint.id[2:])]['fire_count'] == '-1' and \
                        bool(r) and r[0] == 'return' and not any(f_['raises'] != 'never' for f_ in recipe['funcs'])
                    shape = ('recursion, although every level opened a snapshot of its own' if own_opening else
                             'recursion') if sum(1 for x in cands if x.func == e.func) > 1 else \
                        'exception caught inside the invocation' if (r and r[0] == 'return' and w.expression == 'exception') \
                        else 'an exception the invocation caught earlier is captured instead of the one it raised' \
                        if (r and r[0] == 'exception' and w.expression == 'exception' and
                            any(t in earlier for t in texts)) \
                        else 'exception unwinding through the invocation' if r and r[0] == 'exception' else 'plain call'
                    out.violate('method_capture: captured result is not what that invocation returned or raised (%s)' % shape,
                                {'captured': [w.expression] + texts[:3], 'expected': [r[0], str(r[1])[:60]] if r else None})
                    break
            if kind == 'method_capture' and not caps:
                out.violate('method_capture: delivered without any captured result')
                break
        # ---- never completed deferred snapshots: every capture tracepoint hit must eventually deliver -----------------
        for tid, (kind, fi) in tpdefs.items():
            if 'capture' not in kind:
                continue
            want_event = 'call' if kind == 'method_capture' else 'line'
            hits = [e for e in ip.events if e.base == BASE and e.event == want_event and e.func == fi['name'] and
                    (kind == 'method_capture' or
                     e.line == fi.get(recipe['tps'][int(tid[2:])].get('at') or 'work', fi['work'])) and
                    (not reconf_at or e.idx < reconf_at[0])]
            tp = [t for t in recipe['tps'] if True]
            fc = int(recipe['tps'][int(tid[2:])]['fire_count'])
            exp = len(hits) if fc == -1 else min(len(hits), fc)
            got = len([p for p in pushes if p['snap'].tracepoint.id == tid])
            if got < exp:
                out.violate('%s: a deferred snapshot was never delivered' % kind, {'hits': len(hits), 'delivered': got})
                break
            if got > exp:
                out.violate('%s: more deferred snapshots than permitted hits' % kind)
                break
            # every invocation returns a text of its own ("ret-<function>-<n>-<serial>"): when every entry of the
            # function opens a snapshot of its own and nothing raises, the captured results, taken together, are exactly
            # the results of those invocations - one each (a snapshot cannot carry another invocation's result)
            if kind == 'method_capture' and fc == -1 and not reconf_at and \
                    not any(f_['raises'] != 'never' or f_['kind'] == 'gen' for f_ in recipe['funcs']):
                want = sorted(str(inv_result[e.inv][1]) for e in hits if inv_result.get(e.inv, ('', ''))[0] == 'return')
                have = []
                for p in pushes:
                    if p['snap'].tracepoint.id != tid:
                        continue
                    for w in p['snap'].watches:
                        if w.source == 'CAPTURE' and w.result is not None:
                            have += [t for t in self.texts_below(p['snap'], w.result.vid)[:1]]
                if len(want) == len(have) and sorted(have) != want and all(h.startswith('ret-') for h in have):
                    out.violate('method_capture: captured result is not what that invocation returned or raised (recursion, '
                                'although every level opened a snapshot of its own)', {'captured': sorted(have)[:4],
                                                                                      'returned': want[:4]})
                    break
        if leftovers:
            out.violate('work left pending for a thread that has ended', {'threads': leftovers})
        lab.reset_world()
        return out

    @staticmethod
    def texts_below(snap, vid, depth=0):
        if vid is None or vid not in snap.var_lookup or depth > 3:
            return []
        v = snap.var_lookup[vid]
        out = [v.value]
        for c in v.children:
            out += C15.texts_below(snap, c.vid, depth + 1)
        return out


PROP = C15()
