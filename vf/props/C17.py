"""C17 - metric tracepoints report each defined metric with the right type, labels and value.

Lists of 1-4 metric definitions (four types in any letter case, through the code route and through the protobuf
route, name / namespace / help / unit set or unset, expressions numeric / boolean / numeric string / non-numeric /
failing / unset, labels static of every AnyValue kind / expression / failing expression) x 0-3 recording
processors x frame states x fire budget.  The type x expression-kind x label-kind x processor-count table is
enumerated completely.
"""
import itertools

from hypothesis import strategies as st

from vf import lab
from vf.core import Prop, Outcome, fd

from deep.api.tracepoint.trigger import build_trigger
from deep.api.tracepoint.tracepoint_config import MetricDefinition, LabelExpression
from deep.grpc import convert_response
from deepproto.proto.common.v1.common_pb2 import AnyValue
from deepproto.proto.tracepoint.v1.tracepoint_pb2 import TracePointConfig, Metric, MetricType, LabelExpression as PLabel

PATH, LINE = 'c17_host.py', 4
TYPES = ['counter', 'gauge', 'histogram', 'summary']
EXPR_KINDS = {'unset': None, 'int': 'n', 'float': 'f', 'bool': 'b', 'numstr': 'ns', 'nonnum': 's', 'failing': '1/0',
              'arith': 'n * 2 + G', 'none': 'nothing', 'list': 'lst', 'raises_base': 'boom_base()',
              # an int no float can hold (float() raises OverflowError): not a number the processors can be given
              'hugeint': 'G ** 400'}
LABEL_KINDS = ['none', 'static_str', 'static_int', 'static_float', 'static_bool', 'expr', 'expr_global', 'failing',
               'expr_tuple', 'expr_one_tuple', 'expr_none',
               # static values that are the default of their wire type, and a value that has no text
               'static_zero', 'static_false', 'static_empty', 'expr_no_text']
class HostBase(BaseException):
    pass


def boom_base():
    raise HostBase('metric expression raised a BaseException')


# the module also has globals named like two of the function's locals (n, s): the local is what the line sees
class NoText:
    def __str__(self):
        raise RuntimeError('this value has no text')
    __repr__ = __str__


HOST_GLOBALS = {'NOTEXT': NoText(), 'G': 100, 'boom_base': boom_base, '__name__': 'c17_host', 'n': 1000, 's': 'module-level s'}


class EmptyRegistryProcessor(lab.RecMetricProcessor):
    """A processor that is falsy (a registry that is empty until it has seen a series): still an active processor."""

    def __len__(self):
        return 0


def frame_values(k):
    return {'n': 3 + k, 'f': 2.5 + k, 'b': bool(k % 2), 'ns': '12.5', 's': 'abc', 'nothing': None, 'lst': [1, 2]}


def expected_value(expr, frame):
    if not expr:
        return 1
    try:
        return float(eval(expr, frame.f_globals, frame.f_locals))
    except BaseException:      # noqa
        return 1


def label_spec(kind, i):
    key = 'l%d' % i
    if kind == 'static_str':
        return key, 'sv', None
    if kind == 'static_int':
        return key, 7, None
    if kind == 'static_float':
        return key, 1.5, None
    if kind == 'static_bool':
        return key, True, None
    if kind == 'expr':
        return key, None, 's'
    if kind == 'expr_global':
        return key, None, 'G + n'
    if kind == 'failing':
        return key, None, 'nope.x'
    if kind == 'expr_tuple':
        return key, None, '(n, s)'
    if kind == 'expr_one_tuple':
        return key, None, '(s,)'
    if kind == 'expr_none':
        return key, None, 'nothing'
    if kind == 'static_zero':
        return key, 0, None
    if kind == 'static_false':
        return key, False, None
    if kind == 'static_empty':
        return key, '', None
    if kind == 'expr_no_text':
        return key, None, 'NOTEXT'
    return None


def to_proto_metric(m):
    pm = Metric(name=m['name'], type=MetricType.Value(m['type'].upper()))
    if m['expr']:
        pm.expression = m['expr']
    if m.get('namespace'):
        pm.namespace = m['namespace']
    if m.get('help'):
        pm.help = m['help']
    if m.get('unit'):
        pm.unit = m['unit']
    for i, lk in enumerate(m['labels']):
        spec = label_spec(lk, i)
        if spec is None:
            continue
        key, static, expr = spec
        if expr is not None:
            pm.labelExpressions.append(PLabel(key=key, expression=expr))
        else:
            av = AnyValue(string_value=static) if isinstance(static, str) else \
                AnyValue(bool_value=static) if isinstance(static, bool) else \
                AnyValue(int_value=static) if isinstance(static, int) else AnyValue(double_value=static)
            pm.labelExpressions.append(PLabel(key=key, static=av))
    return pm


def to_code_metric(m, case):
    labels = []
    for i, lk in enumerate(m['labels']):
        spec = label_spec(lk, i)
        if spec is None:
            continue
        key, static, expr = spec
        labels.append(LabelExpression(key, static, expr))
    t = m['type']
    t = {'lower': t.lower(), 'upper': t.upper(), 'title': t.title()}[case]
    return MetricDefinition(m['name'], t, labels, m['expr'], m.get('namespace'), m.get('help'), m.get('unit'))


METRIC = fd({
    'type': st.sampled_from(TYPES),
    'name': st.sampled_from(['m_a', 'm_b', 'requests_total', 'x']),
    'expr': st.sampled_from(list(EXPR_KINDS.values())),
    'namespace': st.sampled_from([None, None, 'app', 'deep_custom']),
    'help': st.sampled_from([None, 'helps']),
    'unit': st.sampled_from([None, 'ms']),
    'labels': st.lists(st.sampled_from(LABEL_KINDS), max_size=3),
})


class C17(Prop):
    id = 'C17'
    level = 'exploration'
    rule = ('1-4 metric definitions (type x letter case x route {code, protobuf} x namespace/help/unit x expression kind '
            '{unset, int, float, bool, numeric string, non-numeric, failing, arithmetic over a host global, None, list} x '
            '0-3 labels {static str/int/float/bool, expression, expression over a host global, failing}) x 0-3 '
            'processors x 3 hits with per-hit state x fire_count; the type x expression x label x processor-count table '
            '(%d rows) is enumerated completely; non-trivial = >= 2 metrics or >= 2 processors or a non-numeric / failing '
            'expression; distinct = distinct recipe' % (len(TYPES) * len(EXPR_KINDS) * len(LABEL_KINDS) * 4))
    assumptions = ['processors are well-behaved here (a raising processor is C20\'s subject)',
                   'labels with failing expressions are only required to be present',
                   'static label values through the protobuf route arrive as the python value of the AnyValue field']
    quick_examples = 1000
    thorough_examples = 5000
    fuzz_runs = 20000
    exhaustive_quick = True
    exhaustive_thorough = True
    floors = {'zero_processors': 0.1, 'multi_metric': 0.2, 'via_protobuf': 0.3}

    def enumerate(self, tier, shard=0, nshards=1):
        rows = list(itertools.product(TYPES, EXPR_KINDS.values(), LABEL_KINDS, [0, 1, 2, 3]))
        for i, (t, e, lk, np_) in enumerate(rows):
            if i % nshards != shard:
                continue
            yield {'metrics': [{'type': t, 'name': 'm_t', 'expr': e, 'namespace': None, 'help': None, 'unit': None,
                                'labels': [lk]}], 'nproc': np_, 'route': 'code' if i % 2 else 'proto',
                   'case': ['lower', 'upper', 'title'][i % 3], 'fire_count': '2'}

    def strategy(self, tier):
        return fd({
            'metrics': st.lists(METRIC, min_size=1, max_size=4),
            'nproc': st.sampled_from([0, 1, 1, 2, 3]),
            'route': st.sampled_from(['code', 'proto']),
            'case': st.sampled_from(['lower', 'upper', 'title']),
            'fire_count': st.sampled_from(['1', '2', '-1']),
            'window': st.sampled_from([None, None, None, 'start', 'end', 'both']),
        })

    def run_case(self, recipe):
        out = Outcome()
        lab.reset_world()
        ms = recipe['metrics']
        args = {'fire_count': recipe['fire_count'], 'fire_period': '0', 'snapshot': 'no_collect'}
        if recipe.get('window'):
            # a fire window (epoch milliseconds, as the service sends it) that is open now: from a minute ago until an
            # hour from now. Every hit of this case is inside it
            now_ms = lab.CLOCK.now // 1_000_000
            if recipe['window'] in ('start', 'both'):
                args['window_start'] = str(now_ms - 60_000)
            if recipe['window'] in ('end', 'both'):
                args['window_end'] = str(now_ms + 3_600_000)
            out.cls('inside_an_open_fire_window')
        if recipe['route'] == 'proto':
            out.cls('via_protobuf')
            trig = convert_response([TracePointConfig(ID='tp', path=PATH, line_number=LINE, args=args,
                                                      metrics=[to_proto_metric(m) for m in ms])])
        else:
            trig = [build_trigger('tp', PATH, LINE, args, [], [to_code_metric(m, recipe['case']) for m in ms])]
        procs = [(EmptyRegistryProcessor if (i == 0 and recipe.get('case') == 'upper') else lab.RecMetricProcessor)(
            name='proc%d' % i) for i in range(recipe['nproc'])]
        handler, cfg, push = lab.make_handler(trig, plugins=list(procs))
        if len(ms) >= 2:
            out.cls('multi_metric')
        if recipe['nproc'] == 0:
            out.cls('zero_processors')
        out.nontrivial = len(ms) >= 2 or recipe['nproc'] >= 2 or any(
            m['expr'] in ('s', '1/0', 'nothing', 'lst', 'boom_base()') for m in ms)
        fc = int(recipe['fire_count'])
        fired = 0
        late = None
        removed = []
        for hit in range(3):
            lab.CLOCK.advance_ms(1)
            gen = lab.frame_at(PATH, LINE, 'target', frame_values(hit), globs=HOST_GLOBALS)
            frame = gen.gi_frame
            if recipe['nproc'] == 0 and hit == 2:
                # a processor appears later: the fire budget must be untouched by the hits nothing was reported for
                late = lab.RecMetricProcessor(name='late')
                if recipe.get('case') == 'upper':
                    cfg.plugins = [late]
                else:
                    cfg.plugins.append(late)         # the plugin list is a plain list: in-place changes count too
                procs = [late]
            if recipe['nproc'] >= 2 and hit == 2 and recipe.get('case') == 'title':
                del cfg.plugins[:]                  # processors removed in place: nothing may be reported any more
                removed = [(p, len(p.calls)) for p in procs]
                procs = []
            n0 = [len(p.calls) for p in procs]
            try:
                handler.trace_call(frame, 'line', None)
            except BaseException as e:      # noqa
                out.violate('trace_call raised %s' % lab.exc_bucket(e))
            for p, k in removed:
                if len(p.calls) != k:
                    out.violate('metric calls differ: a processor removed from the plugin list is still reported to')
            active = len(procs) > 0
            permitted = active and (fc == -1 or fired < fc)
            if permitted:
                fired += 1
            exp_calls = []
            if permitted:
                for m in ms:
                    labels = {}
                    for i, lk in enumerate(m['labels']):
                        spec = label_spec(lk, i)
                        if spec is None:
                            continue
                        key, static, expr = spec
                        if expr is None:
                            labels[key] = static
                        else:
                            try:
                                labels[key] = str(eval(expr, frame.f_globals, frame.f_locals))
                            except BaseException:      # noqa
                                labels[key] = ANY
                    exp_calls.append((m['type'].lower(), m['name'], labels, m.get('namespace') or 'deep',
                                      m.get('help') or None, m.get('unit') or None, expected_value(m['expr'], frame)))
            for p, k in zip(procs, n0):
                got = p.calls[k:]
                if not self.same(got, exp_calls):
                    what = self.diff(got, exp_calls)
                    if late is not None and not got:
                        what = 'a processor added after unreported hits finds the fire budget used up'
                    out.violate('metric calls differ: %s' % what,
                                {'hit': hit, 'expected': repr(exp_calls)[:300], 'got': repr(got)[:300]})
                    gen.close()
                    lab.reset_world()
                    return out
            gen.close()
        lab.reset_world()
        return out

    @staticmethod
    def same(got, exp):
        if len(got) != len(exp):
            return False
        for g, e in zip(got, exp):
            if g[0] != e[0] or g[1] != e[1] or g[3] != e[3] or (g[4] or None) != e[4] or (g[5] or None) != e[5]:
                return False
            if float(g[6]) != float(e[6]):
                return False
            if set(g[2]) != set(e[2]):
                return False
            for k, v in e[2].items():
                if v is not ANY and g[2][k] != v:
                    return False
        return True

    @staticmethod
    def diff(got, exp):
        if len(got) != len(exp):
            return 'number of reports (%d instead of %d)' % (len(got), len(exp))
        for g, e in zip(got, exp):
            if g[0] != e[0]:
                return 'operation %s instead of %s' % (g[0], e[0])
            if g[1] != e[1]:
                return 'name'
            if g[3] != e[3]:
                return 'namespace'
            if (g[4] or None) != e[4] or (g[5] or None) != e[5]:
                return 'help/unit'
            if float(g[6]) != float(e[6]):
                return 'value'
            if set(g[2]) != set(e[2]) or any(v is not ANY and g[2][k] != v for k, v in e[2].items()):
                return 'labels'
        return '?'


ANY = object()
PROP = C17()
