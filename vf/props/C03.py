"""C03 - trigger placement: actions fire at exactly the configured locations.

Generated programs x generated tracepoint sets.  The interposer sees every trace event first, decides
*by the property's own definition* which tracepoints are due at it, delegates to the real handler and
attributes everything the recorders received during that delegation to that event.  Per event the
multiset of tracepoints that acted must equal the multiset that was due.
"""
import os

from hypothesis import strategies as st

from vf import lab, progs, probe
from vf.core import Prop, Outcome, fd

from deep.api.tracepoint.trigger import build_trigger
from deep.api.tracepoint.tracepoint_config import MetricDefinition
from deep.grpc import convert_response
from deepproto.proto.tracepoint.v1.tracepoint_pb2 import TracePointConfig, Metric, MetricType

ALWAYS = {'fire_count': '-1', 'fire_period': '0'}
ACTIONS = ['snapshot', 'log', 'metric', 'span', 'snapshot+log']


def tp_args(tp):
    args = dict(ALWAYS)
    a = tp['action']
    if a == 'log':
        args['log_msg'] = 'L:' + tp['id']
        args['snapshot'] = 'no_collect'
    elif a == 'snapshot+log':
        args['log_msg'] = 'L:' + tp['id']
    elif a == 'metric':
        args['snapshot'] = 'no_collect'
    elif a == 'span':
        args['snapshot'] = 'no_collect'
        args['span'] = 'line' if tp['kind'] == 'line' else 'method'
    elif a == 'refused_capture':
        args['stage'] = 'line_capture'
    if tp['kind'] == 'method':
        args['method_name'] = tp['name']
    return args


def resolve_tps(recipe, rendered):
    """Turn tracepoint recipes into concrete (id, path basename, line, method name, action) dicts."""
    out = []
    files = recipe['prog']['files']
    nst = len(rendered.stmts)
    for i, tp in enumerate(recipe['tps']):
        d = dict(tp)
        d['id'] = 'tp%d' % i
        if tp['kind'] == 'line':
            where = tp['where']
            if where[0] == 'stmt':
                s = rendered.stmts[where[1] % nst]
                d['path'] = os.path.basename(files[s['file']]['path'])
                d['line'] = s['line']
            elif where[0] == 'def':
                fi = rendered.func_info[where[1] % len(rendered.func_info)]
                d['path'] = os.path.basename(fi['path'])
                d['line'] = fi['def_line']
            elif where[0] == 'raw':
                d['path'] = os.path.basename(files[where[1] % len(files)]['path'])
                d['line'] = where[2]
            elif where[0] == 'mirror':
                # the line number of a statement of one file, configured for the *other* file of the program
                s = rendered.stmts[where[1] % nst]
                d['path'] = os.path.basename(files[(s['file'] + 1) % len(files)]['path'])
                d['line'] = s['line']
            else:   # other file
                d['path'] = 'elsewhere.py'
                d['line'] = where[2]
            d['name'] = None
        else:
            where = tp['where']
            if where[0] == 'func':
                fi = rendered.func_info[where[1] % len(rendered.func_info)]
                d['path'] = os.path.basename(fi['path'])
                d['name'] = fi['name']
            elif where[0] == 'absent':
                d['path'] = os.path.basename(files[where[1] % len(files)]['path'])
                d['name'] = 'no_such_function'
            elif where[0] == 'numeric':
                # a method name that reads like a line number of the same file (no function can have it: the tracepoint
                # never acts - and it must not get in the way of the line tracepoint on that line)
                st_ = rendered.stmts[where[1] % nst]
                d['path'] = os.path.basename(files[st_['file']]['path'])
                d['name'] = str(st_['line'])
            elif where[0] == 'mirror':
                # the name of a function of one file, configured for the other file of the program
                fi = rendered.func_info[where[1] % len(rendered.func_info)]
                d['path'] = os.path.basename(files[(fi['file'] + 1) % len(files)]['path'])
                d['name'] = fi['name']
            else:
                d['path'] = 'elsewhere.py'
                d['name'] = 'f1'
            d['line'] = -1
        out.append(d)
    return out


def install(tps, route, wire_ids='own'):
    if route == 'response':
        resp = []
        for tp in tps:
            metrics = [Metric(name='m_' + tp['id'], type=MetricType.COUNTER)] if tp['action'] == 'metric' else []
            # the ID field left out (its wire default is '') or the same for all: each entry is still a tracepoint
            wid = {'own': tp['id'], 'empty': '', 'same': 'tp'}[wire_ids] if tp['id'] != 'refused' else tp['id']
            resp.append(TracePointConfig(ID=wid, path=tp['path'], line_number=max(tp['line'], 0),
                                         args=tp_args(tp), watches=[], metrics=metrics))
        return convert_response(resp)
    out = []
    for tp in tps:
        metrics = [MetricDefinition('m_' + tp['id'], 'counter')] if tp['action'] == 'metric' else []
        out.append(build_trigger(tp['id'], tp['path'], tp['line'], tp_args(tp), [], metrics))
    return out


class RefusingPush:
    """The delivery side refuses the snapshots of one tracepoint (as a push service that no longer takes work does):
    that tracepoint's deferred snapshot fails to complete, on the event on which other tracepoints may be due."""

    def __init__(self, inner, refused_id):
        self.inner = inner
        self.refused_id = refused_id
        self.refused = 0

    def push_snapshot(self, snapshot):
        if snapshot.tracepoint.id == self.refused_id:
            self.refused += 1
            raise RuntimeError('push refused')
        self.inner.push_snapshot(snapshot)


class Recorders:
    def __init__(self):
        self.logger = lab.RecLogger()
        self.metric = lab.RecMetricProcessor()
        self.span = lab.RecSpanProcessor()
        self.push = lab.RecPush()
        self.marks = (0, 0, 0, 0)

    def plugins(self):
        return [self.logger, self.metric, self.span]

    def mark(self):
        self.marks = (len(self.push.snapshots), len(self.logger.calls), len(self.metric.calls), len(self.span.spans))

    def since_mark(self):
        """Tracepoint ids that acted since mark(): list of (tp id, action kind)."""
        s0, l0, m0, p0 = self.marks
        acted = []
        for s in self.push.snapshots[s0:]:
            acted.append((s.tracepoint.id, 'snapshot'))
        for c in self.logger.calls[l0:]:
            msg = c[0]
            acted.append((msg.split('L:', 1)[1] if 'L:' in msg else '?' + msg, 'log'))
        for c in self.metric.calls[m0:]:
            acted.append((c[1][2:], 'metric'))
        for sp in self.span.spans[p0:]:
            acted.append((sp.tp_id, 'span'))
        return acted


def expected_at(ev, tps, frame=None):
    exp = []
    for tp in tps:
        if tp['kind'] == 'line':
            if ev.event == 'line' and ev.base == tp['path'] and ev.line == tp['line']:
                exp.append(tp)
        else:
            if ev.event == 'call' and ev.base == tp['path'] and ev.func == tp['name']:
                exp.append(tp)
    return exp


def actions_of(tp):
    a = tp['action']
    if a == 'snapshot+log':
        return [(tp['id'], 'snapshot'), (tp['id'], 'log')]
    return [(tp['id'], a)]


class SpawnOnStr:
    """A host value whose __str__ (called by the agent while it collects thread A's snapshot) runs a second program
    thread to completion: thread B reaches its tracepoint while thread A's hit is still being processed."""

    def __init__(self):
        self.armed = True

    def __str__(self):
        if self.armed:
            self.armed = False
            import sys
            import threading
            f = sys._getframe()
            while f is not None and f.f_code.co_name != 'f0':
                f = f.f_back
            g = f.f_globals
            t = threading.Thread(target=g['RUN'], args=(lambda: g['M0'].f1(0), 'TB'), name='TB')
            t.start()
            t.join(30)
        return 'gate'


MIDFRAME_PROG = {'files': [{'path': '/app/pkg/mod_a.py', 'src': True}],
                 'funcs': [{'name': 'f0', 'file': 0, 'kind': 'func', 'nparams': 1,
                            'body': [['set', 'a', '0'],
                                     ['loop', 'i', 3, [['if', 'i == 1', [['mark', 'V[0]()']], []],
                                                       ['set', 'a', 'a + i']]],
                                     ['ret', 'a']]}]}


OVERLAP_PROG = {'files': [{'path': '/app/pkg/mod_a.py', 'src': True}],
                'funcs': [{'name': 'f0', 'file': 0, 'kind': 'func', 'nparams': 1,
                           'body': [['hold', 'h1', 0], ['mark', 'n'], ['ret', 'n']]},
                          {'name': 'f1', 'file': 0, 'kind': 'func', 'nparams': 1,
                           'body': [['set', 'a', 'n + 1'], ['mark', 'a'], ['ret', 'a']]}]}


class C03(Prop):
    id = 'C03'
    level = 'exploration'
    rule = ('generated program (calls, loops, branches, try/raise, generators, methods, threads, two files incl. equal '
            'basenames) x 1-6 generated tracepoints (line on executed / never-executed / def lines / other files, '
            'method tracepoints on present / absent names, several per location, all action kinds, installed as '
            'triggers or through convert_response); non-trivial = >= 2 tracepoints, >= 1 firing and >= 20 '
            'non-matching events; distinct = distinct recipe')
    assumptions = ['tracepoint paths are basenames (what the service, the examples and the tests send)',
                   'rate limits are off (fire_count=-1, fire_period=0); they are C04\'s subject',
                   'a generator resume delivers a call event: firing at a resume is accepted, not required',
                   'at most one program thread is runnable at a time']
    quick_examples = 500
    thorough_examples = 3000
    floors = {'shared_location': 0.1, 'method_tp': 0.2, 'never_hit_tp': 0.2, 'fired': 0.4,
              'overlapping_threads': 0.05}

    def strategy(self, tier):
        line_where = st.one_of(
            st.tuples(st.just('stmt'), st.integers(0, 60)),
            st.tuples(st.just('stmt'), st.integers(0, 60)),
            st.tuples(st.just('def'), st.integers(0, 5)),
            st.tuples(st.just('raw'), st.integers(0, 1), st.integers(1, 60)),
            st.tuples(st.just('mirror'), st.integers(0, 60)),
            st.tuples(st.just('other'), st.just(0), st.integers(1, 40)))
        method_where = st.one_of(st.tuples(st.just('func'), st.integers(0, 5)),
                                 st.tuples(st.just('func'), st.integers(0, 5)),
                                 st.tuples(st.just('absent'), st.integers(0, 1)),
                                 st.tuples(st.just('mirror'), st.integers(0, 5)),
                                 st.tuples(st.just('numeric'), st.integers(0, 60)),
                                 st.tuples(st.just('other'), st.just(0)))
        tp = st.one_of(
            fd({'kind': st.just('line'), 'where': line_where.map(list),
                                   'action': st.sampled_from(ACTIONS)}),
            fd({'kind': st.just('method'), 'where': method_where.map(list),
                                   'action': st.sampled_from(ACTIONS)}))

        def dup(tps_and_dups):
            tps, dups = tps_and_dups
            out = list(tps)
            for (i, action) in dups:
                base = dict(tps[i % len(tps)])
                base['action'] = action
                out.append(base)
            return out[:6]

        tps = st.tuples(st.lists(tp, min_size=1, max_size=4),
                        st.lists(st.tuples(st.integers(0, 3), st.sampled_from(ACTIONS)), max_size=2)).map(dup)
        general = fd({
            'prog': progs.program_recipes(),
            'tps': tps,
            'route': st.sampled_from(['triggers', 'response']),
            # a bystander: a further line tracepoint whose snapshot is deferred to the end of its line and then refused
            # by the delivery side - what the others do, at the event that completes it, is unchanged
            'refused_capture': st.one_of(st.none(), st.none(), st.integers(0, 60)),
            # (route 'response' only) what the ID field of the entries carries
            'wire_ids': st.sampled_from(['own', 'own', 'own', 'empty', 'same']),
        })
        overlap = fd({
            'mode': st.just('overlap'),
            'b_action': st.sampled_from(ACTIONS),
            'b_kind': st.sampled_from(['line', 'method']),
            'extra_a': st.sampled_from([None, 'log', 'metric']),
            'route': st.sampled_from(['triggers', 'response']),
        })
        midframe = fd({'mode': st.just('midframe'),
                       'prior': st.sampled_from(['empty', 'other_file', 'same_file_other_line', 'other_file']),
                       'action': st.sampled_from(ACTIONS), 'route': st.sampled_from(['triggers', 'response'])})
        return st.one_of(general, general, general, general, general, general, overlap, midframe)

    def run_midframe(self, recipe):
        """The service adds a tracepoint to a function that is already running (a long-lived loop): the new tracepoint
        must act when that invocation reaches its line."""
        out = Outcome()
        out.cls('tracepoint_added_to_a_running_function')
        out.nontrivial = True
        lab.reset_world()
        rendered = progs.render(MIDFRAME_PROG)
        line_new = [st_ for st_ in rendered.stmts if st_['kind'] == 'set' and st_['line'] > rendered.stmts[0]['line']][-1]['line']
        line_first = rendered.stmts[0]['line']
        new_tp = {'id': 'tp9', 'kind': 'line', 'path': 'mod_a.py', 'line': line_new, 'name': None,
                  'action': recipe['action']}
        prior = []
        if recipe['prior'] == 'other_file':
            prior = [{'id': 'tp1', 'kind': 'line', 'path': 'elsewhere.py', 'line': 3, 'name': None, 'action': 'snapshot'}]
        elif recipe['prior'] == 'same_file_other_line':
            prior = [{'id': 'tp1', 'kind': 'line', 'path': 'mod_a.py', 'line': line_first, 'name': None, 'action': 'log'}]
        rec = Recorders()
        handler, cfg, _ = lab.make_handler(install(prior, recipe['route']), plugins=rec.plugins(), push=rec.push)

        def add_tracepoint():
            handler.new_config(install(prior + [new_tp], recipe['route']))
        ip = probe.Interposer(handler.trace_call)
        rec.mark()
        progs.run_program(MIDFRAME_PROG, rendered, tracer=ip.trace, values=[add_tracepoint])
        got = [a for a in rec.since_mark() if a[0] == 'tp9']
        exp = actions_of(new_tp) * 2          # the line is reached twice after the tracepoint was added
        if sorted(got) != sorted(exp):
            out.violate('a tracepoint added while its function was already running does not act in that invocation '
                        '(configuration at the time the frame was entered: %s)' % (
                            'empty' if recipe['prior'] == 'empty' else 'not empty'),
                        {'expected': exp, 'got': got, 'prior': recipe['prior']})
        lab.reset_world()
        return out

    def run_overlap(self, recipe):
        """Two threads overlap: B's whole hit happens while A's hit is inside collection (harness-owned schedule)."""
        out = Outcome()
        lab.reset_world()
        rendered = progs.render(OVERLAP_PROG)
        a_line = [st_ for st_ in rendered.stmts if st_['func'] == 'f0' and st_['kind'] == 'mark'][0]['line']
        b_line = [st_ for st_ in rendered.stmts if st_['func'] == 'f1' and st_['kind'] == 'mark'][0]['line']
        tps = [{'id': 'tp0', 'kind': 'line', 'path': 'mod_a.py', 'line': a_line, 'name': None, 'action': 'snapshot'}]
        if recipe['extra_a']:
            tps.append({'id': 'tp1', 'kind': 'line', 'path': 'mod_a.py', 'line': a_line, 'name': None,
                        'action': recipe['extra_a']})
        if recipe['b_kind'] == 'line':
            tps.append({'id': 'tp2', 'kind': 'line', 'path': 'mod_a.py', 'line': b_line, 'name': None,
                        'action': recipe['b_action']})
        else:
            tps.append({'id': 'tp2', 'kind': 'method', 'path': 'mod_a.py', 'line': -1, 'name': 'f1',
                        'action': recipe['b_action']})
        rec = Recorders()
        triggers = install(tps, recipe['route'])
        handler, cfg, _ = lab.make_handler(triggers, plugins=rec.plugins(), push=rec.push)
        ip = probe.Interposer(handler.trace_call)
        rec.mark()
        res = progs.run_program(OVERLAP_PROG, rendered, tracer=ip.trace, values=[SpawnOnStr()])
        if 'TB' not in res.thread_results:
            # the schedule could not be set up (thread A's snapshot did not render the gate value): nothing to judge;
            # the floor on 'overlapping_threads' makes sure this does not happen silently on the unchanged tree
            lab.reset_world()
            return out
        out.cls('overlapping_threads')
        out.nontrivial = True
        exp = sorted(a for tp in tps for a in actions_of(tp))
        got = sorted(rec.since_mark())
        if ip.agent_raised:
            out.violate('agent raised into the program: %s' % ip.agent_raised[0][1])
        if got != exp:
            missing = [a for a in exp if a not in got]
            extra = [a for a in got if a not in exp]
            who = 'thread B (hit during another thread\'s processing)' if any(m[0] == 'tp2' for m in missing) else 'thread A'
            out.violate('overlapping threads: %s' % ('due action missing in %s' % who if missing else 'extra action'),
                        {'missing': missing, 'extra': extra})
        lab.reset_world()
        return out

    def run_case(self, recipe):
        if recipe.get('mode') == 'overlap':
            return self.run_overlap(recipe)
        if recipe.get('mode') == 'midframe':
            return self.run_midframe(recipe)
        out = Outcome()
        lab.reset_world()
        rendered = progs.render(recipe['prog'])
        tps = resolve_tps(recipe, rendered)
        rec = Recorders()
        bystander = []
        if recipe.get('refused_capture') is not None:
            bystander = resolve_tps({'prog': recipe['prog'], 'tps': [{'kind': 'line', 'action': 'refused_capture',
                                                                      'where': ['stmt', recipe['refused_capture']]}]},
                                    rendered)
            bystander[0]['id'] = 'refused'
        try:
            wire_ids = recipe.get('wire_ids') or 'own'
            anonymous = wire_ids != 'own' and recipe['route'] == 'response'
            triggers = install(tps + bystander, recipe['route'], wire_ids)
        except Exception as e:      # noqa
            out.violate('install raised %s' % lab.exc_bucket(e), {'tps': tps})
            return out
        push = RefusingPush(rec.push, 'refused') if bystander else rec.push
        handler, cfg, _ = lab.make_handler(triggers, plugins=rec.plugins(), push=push)
        mismatches = []
        matched_events = [0]
        nonmatching = [0]
        resume = {}

        def before(ev, frame):
            rec.mark()
            resume[ev.idx] = (ev.event == 'call' and frame.f_lasti > 0)

        def after(ev, frame):
            exp_tps = expected_at(ev, tps)
            exp = sorted(a for tp in exp_tps for a in actions_of(tp))
            got = sorted(rec.since_mark())
            if anonymous:
                # the entries cannot be told apart by id: how many acted, and with which kind of action
                exp = sorted(k for _, k in exp)
                got = sorted(k for _, k in got)
            if exp:
                matched_events[0] += 1
            else:
                nonmatching[0] += 1
            if got != exp:
                if resume.get(ev.idx) and not got:
                    return          # generator resume: firing optional
                mismatches.append((ev, exp, got))

        ip = probe.Interposer(handler.trace_call)
        ip.before_delegate = before
        ip.after_delegate = after
        res = progs.run_program(recipe['prog'], rendered, tracer=ip.trace)
        # ---- classes ------------------------------------------------------------------------
        locs = {}
        for tp in tps:
            locs.setdefault((tp['path'], tp['line'], tp['name']), []).append(tp)
        if any(len(v) > 1 for v in locs.values()):
            out.cls('shared_location')
        if anonymous and len(tps) > 1:
            out.cls('entries_without_own_id')
        if bystander and push.refused:
            out.cls('refused_deferred_snapshot')
        if any(tp['kind'] == 'method' for tp in tps):
            out.cls('method_tp')
        fired_ids = set()
        for ev in ip.events:
            for tp in expected_at(ev, tps):
                fired_ids.add(tp['id'])
        if len(fired_ids) < len(tps):
            out.cls('never_hit_tp')
        if fired_ids:
            out.cls('fired')
        if any(ev.thread != 'main-prog' for ev in ip.events):
            out.cls('threads')
        if any(f['kind'] == 'gen' for f in recipe['prog']['funcs']):
            out.cls('generator')
        if len({os.path.basename(f['path']) for f in recipe['prog']['files']}) < len(recipe['prog']['files']):
            out.cls('same_basename_files')
        if recipe['route'] == 'response':
            out.cls('via_convert_response')
        if len(recipe['prog']['files']) == 2 and any(t['where'][0] == 'mirror' for t in recipe['tps']):
            out.cls('same_line_or_name_in_the_other_file')
        out.nontrivial = len(tps) >= 2 and bool(fired_ids) and nonmatching[0] >= 20
        # ---- verdict ------------------------------------------------------------------------
        if ip.agent_raised:
            out.violate('agent raised into the program: %s' % ip.agent_raised[0][1], {'tps': tps})
        for ev, exp, got in mismatches[:1]:
            missing, extra = list(exp), []       # as multisets (entries without an id of their own repeat)
            for a in got:
                if a in missing:
                    missing.remove(a)
                else:
                    extra.append(a)
            kind_of = lambda a: a if isinstance(a, str) else a[1]      # noqa: E731
            errs = sorted(set(lab.LOGS.errors()))
            if missing and not extra:
                sig = 'due action missing (%s) [agent log: %s]' % (kind_of(missing[0]), ','.join(errs)[:120])
            elif extra and not missing:
                sig = 'action at non-matching event (%s on %s event)' % (kind_of(extra[0]), ev.event)
            else:
                sig = 'wrong actions at event'
            out.violate(sig, {'event': [ev.thread, ev.event, ev.base, ev.line, ev.func], 'expected': exp, 'got': got,
                              'tps': tps})
        lab.reset_world()
        return out


PROP = C03()
