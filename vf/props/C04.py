"""C04 - rate limiting: fire_count, fire_period and the time window are never exceeded.

(a) sequential histories of hits at generated virtual times against the reference limiter (both directions);
(b) overlapping hits: harness-owned schedules - a second hit is run *inside* the first one at a yield point
    (the clock read that stamps the hit, or a host __str__ called during collection), which is exactly what a
    second thread does when the first is pre-empted there; plus a gated real-thread variant;
(c) window_start / window_end given as tracepoint arguments.
"""
import threading

from hypothesis import strategies as st

from vf import lab
from vf.core import Prop, Outcome, fd

from deep.api.tracepoint.trigger import build_trigger, Trigger, LineLocation, LocationAction, Location
from deep.api.tracepoint.tracepoint_config import MetricDefinition

PATH, LINE = 'c04_host.py', 4
FC = [None, '-1', '0', '1', '2', '3', '5', '007', ' 3', 'x', '', '1.5', '-2', '-100']
FP = [None, '0', '1', '10', '100', '1000', 'x', '', '2.5', ' 20']


def parse_int(s, default):
    if s is None:
        return default
    try:
        return int(s)
    except ValueError:
        return default


class Limiter:
    """Reference model written from the statement."""

    def __init__(self, fc, period_ms, start=0, end=0):
        self.fc, self.period = fc, period_ms * 1_000_000
        self.start, self.end = start, end
        self.count, self.last = 0, None

    def in_window(self, t):
        if self.start and t < self.start:
            return False
        if self.end and t > self.end:
            return False
        return True

    def allows(self, t):
        return (self.fc == -1 or self.count < self.fc) and self.in_window(t) and \
            (self.last is None or t - self.last >= self.period)

    def fire(self, t):
        self.count += 1
        self.last = t


class Gate:
    """Value whose __str__ is a call-out from collection: runs a harness callback (inline or by gating threads)."""

    def __init__(self, fn):
        self.fn = fn
        self.armed = True

    def __str__(self):
        if self.armed:
            self.armed = False
            self.fn()
        return 'gate'


class C04(Prop):
    id = 'C04'
    level = 'exploration'
    rule = ('(a) history: fire_count / fire_period from {absent, -1, 0, small, padded, unparsable} x optional window x '
            '1-40 hits with gaps from {0, 1ns, period-1ns, period, period+1ns, large} x action kind; (b) schedule: 2-4 '
            'overlapping hits of one tracepoint, the overlap injected at the clock read or inside collection '
            '(inline re-entrancy and gated real threads); (c) window args through build_trigger. non-trivial = history '
            'with >= 2 hits where the model both allows and refuses a hit, or a schedule with >= 2 overlapping hits; '
            'distinct = distinct recipe')
    assumptions = ['virtual clock, strictly positive and monotone',
                   'overlap is explored at call-out granularity (clock read, host __str__ during collection); a '
                   'pre-emption between two byte-codes without a call-out is outside reach',
                   'for overlapping hits only the bounds are asserted, not which hit wins',
                   'window bounds are given in clock units (ns) when injected directly into the action config']
    quick_examples = 2000
    thorough_examples = 10000
    fuzz_runs = 15000
    floors = {'history': 0.4, 'allow_and_refuse': 0.25, 'overlap': 0.05, 'boundary_gap': 0.15, 'window': 0.07}

    def strategy(self, tier):
        gap = st.sampled_from(['0', '1ns', 'p-1ns', 'p', 'p+1ns', 'large', 'half'])
        history = fd({
            'mode': st.just('history'),
            'fc': st.sampled_from(FC), 'fp': st.sampled_from(FP),
            'window': st.one_of(st.none(), st.none(), st.tuples(st.integers(0, 3000), st.integers(0, 6000)).map(list)),
            'kind': st.sampled_from(['snapshot', 'snapshot', 'log', 'metric', 'span']),
            'gaps': st.lists(gap, min_size=1, max_size=40 if tier == 'thorough' else 14),
        })
        overlap = fd({
            'mode': st.just('overlap'),
            'fc': st.sampled_from(['1', '2', '-1', '3']), 'fp': st.sampled_from(['0', '0', '50', '1000']),
            'n': st.integers(2, 4),
            'at': st.sampled_from(['clock', 'collect', 'collect', 'threads']),
            'nest': st.booleans(),
        })
        window_args = fd({
            'mode': st.just('window_args'),
            'end': st.sampled_from(['1', '1000', '5']), 'start': st.sampled_from([None, '1']),
        })
        shared = fd({
            'mode': st.just('shared_line'),
            'tps': st.lists(st.tuples(st.sampled_from(['1', '2', '3', '-1']), st.sampled_from(['0', '10', '100'])).map(list),
                            min_size=2, max_size=3),
            'gaps': st.lists(st.sampled_from(['0', '5ms', '10ms', '99ms', '100ms', 'large']), min_size=2, max_size=10),
            'route': st.sampled_from(['response', 'response', 'triggers']),
            # a further tracepoint on the same line, handled first, whose own window setting cannot be read ("every
            # ... window setting including unparsable ones"): whatever becomes of it, the others keep their limits and
            # still collect when due
            'bad_first': st.sampled_from([None, None, 'window_start', 'window_end']),
        })
        # the tracepoint stays installed while the configuration around it changes: other tracepoints are registered
        # and unregistered in code, the service sends new configurations (which still contain it) or "no change"
        across = fd({
            'mode': st.just('across_updates'),
            'subject': st.sampled_from(['custom', 'custom', 'service']),
            'fc': st.sampled_from(['1', '2', '3', '-1']), 'fp': st.sampled_from(['0', '0', '100', '3600000']),
            # the tracepoint asks for further actions besides the snapshot (each action has its own counters)
            'also': st.lists(st.sampled_from(['metric', 'span', 'log']), max_size=2, unique=True),
            'ops': st.lists(st.one_of(st.tuples(st.just('hit'), st.sampled_from([0, 1, 99, 100, 5000])),
                                      st.tuples(st.just('hit'), st.sampled_from([0, 1, 99, 100, 5000])),
                                      st.tuples(st.just('reg_other'), st.integers(0, 2)),
                                      st.tuples(st.just('unreg_other'), st.integers(0, 2)),
                                      st.tuples(st.just('svc_update'), st.integers(0, 3)),
                                      # the same, but the task that hands the new configuration to the trigger handler
                                      # only gets its turn after the next hit (hits still reach the previous objects)
                                      st.tuples(st.just('svc_update_lazy'), st.integers(0, 3)),
                                      st.tuples(st.just('nochange'), st.just(0))).map(list),
                            min_size=3, max_size=14),
        })
        return st.one_of(history, history, history, overlap, overlap, window_args, shared, across)

    # -------------------------------------------------------------------------------------------------
    def run_case(self, recipe):
        lab.reset_world()
        try:
            return getattr(self, 'case_' + recipe['mode'])(recipe)
        finally:
            lab.reset_world()

    def _action(self, recipe, extra_cfg=None):
        args = {}
        if recipe.get('fc') is not None:
            args['fire_count'] = recipe['fc']
        if recipe.get('fp') is not None:
            args['fire_period'] = recipe['fp']
        kind = recipe.get('kind', 'snapshot')
        metrics = []
        if kind == 'log':
            args.update({'log_msg': 'hit', 'snapshot': 'no_collect'})
        elif kind == 'metric':
            args['snapshot'] = 'no_collect'
            metrics = [MetricDefinition('m', 'counter')]
        elif kind == 'span':
            args.update({'span': 'line', 'snapshot': 'no_collect'})
        trig = build_trigger('tp', PATH, LINE, args, [], metrics)
        if extra_cfg:
            # only reachable by direct construction: put the window where LocationAction reads it
            act = trig.actions[0]
            cfg = dict(act.config)
            cfg.update(extra_cfg)
            new = LocationAction('tp', act.condition, cfg, act.action_type)
            trig = Trigger(LineLocation(PATH, LINE, Location.Position.START), [new])
        return trig

    def case_history(self, recipe):
        out = Outcome()
        out.cls('history')
        fc = parse_int(recipe['fc'], 1)
        period = parse_int(recipe['fp'], 1000)
        t0 = lab.CLOCK.now
        extra = None
        start = end = 0
        if recipe['window']:
            out.cls('window')
            a, b = recipe['window']
            start = t0 + a * 1_000_000 if a else 0
            end = t0 + b * 1_000_000 if b else 0
            extra = {'window_start': start, 'window_end': end}
        trig = self._action(recipe, extra)
        logger, mproc, sproc = lab.RecLogger(), lab.RecMetricProcessor(), lab.RecSpanProcessor()
        handler, cfg, push = lab.make_handler([trig], plugins=[logger, mproc, sproc])
        model = Limiter(fc, max(period, 0) if period >= 0 else 0, start, end)
        kind = recipe['kind']
        idx = {'snapshot': 0, 'log': 1, 'metric': 2, 'span': 3}[kind]
        gen = lab.frame_at(PATH, LINE, 'target', {'v': 1})
        allowed = refused = 0
        p_ns = max(period, 0) * 1_000_000
        for hi, g in enumerate(recipe['gaps']):
            step = {'0': 0, '1ns': 1, 'p-1ns': max(p_ns - 1, 0), 'p': p_ns, 'p+1ns': p_ns + 1,
                    'large': 10_000_000_000, 'half': p_ns // 2}[g]
            if g in ('p-1ns', 'p', 'p+1ns') and p_ns > 0:
                out.cls('boundary_gap')
            lab.CLOCK.advance_ns(step)
            t = lab.CLOCK.now
            n0 = (len(push.snapshots), len(logger.calls), len(mproc.calls), len(sproc.spans))
            try:
                handler.trace_call(gen.gi_frame, 'line', None)
            except BaseException as e:      # noqa
                out.violate('trace_call raised %s' % lab.exc_bucket(e))
                break
            n1 = (len(push.snapshots), len(logger.calls), len(mproc.calls), len(sproc.spans))
            acted = n1[idx] - n0[idx]
            exp = model.allows(t)
            if exp:
                model.fire(t)
                allowed += 1
            else:
                refused += 1
            if acted != (1 if exp else 0):
                if acted and not exp:
                    why = 'fire_count exceeded' if not (model.fc == -1 or model.count < model.fc) else \
                        'outside the window' if not model.in_window(t) else 'closer than fire_period'
                    out.violate('collected although the limits forbid it: %s' % why,
                                {'hit': hi, 'fc': recipe['fc'], 'fp': recipe['fp'], 'gap': g})
                else:
                    why = 'unparsable setting' if (recipe['fc'] in ('x', '', '1.5', ' 3', '007') or
                                                   recipe['fp'] in ('x', '', '2.5', ' 20')) else 'limits allow it'
                    out.violate('due hit did not collect (%s)' % why,
                                {'hit': hi, 'fc': recipe['fc'], 'fp': recipe['fp'], 'gap': g, 'acted': acted,
                                 'errors': sorted(set(lab.LOGS.errors()))[:3]})
                break
        gen.close()
        if allowed and refused:
            out.cls('allow_and_refuse')
        out.nontrivial = len(recipe['gaps']) >= 2 and allowed > 0 and refused > 0
        return out

    def case_overlap(self, recipe):
        out = Outcome()
        out.cls('overlap', 'overlap_at_' + recipe['at'])
        out.nontrivial = True
        fc = int(recipe['fc'])
        period_ns = int(recipe['fp']) * 1_000_000
        trig = build_trigger('tp', PATH, LINE, {'fire_count': recipe['fc'], 'fire_period': recipe['fp']}, [], [])
        handler, cfg, push = lab.make_handler([trig])
        n = recipe['n']
        if recipe['at'] == 'threads':
            return self._overlap_threads(out, recipe, handler, push, fc, period_ns)
        depth = [0]

        def second_hit():
            # "the other thread": runs a complete hit while the current one is suspended at the yield point
            if depth[0] >= n - 1:
                return
            depth[0] += 1
            if recipe['at'] == 'clock':
                lab.CLOCK.hook = None
            g2 = lab.frame_at(PATH, LINE, 'target', {'v': Gate(second_hit) if recipe['nest'] else 2})
            try:
                lab.CLOCK.advance_ns(1000)
                handler.trace_call(g2.gi_frame, 'line', None)
            finally:
                g2.close()

        if recipe['at'] == 'clock':
            first = [True]

            def hook():
                if first[0]:
                    first[0] = False
                    # hit A has been stamped-to-be; B runs to completion first, with a later timestamp
                    save = lab.CLOCK.now
                    second_hit()
                    lab.CLOCK.now = save        # A continues with its older timestamp
            lab.CLOCK.hook = hook
            g1 = lab.frame_at(PATH, LINE, 'target', {'v': 1})
        else:
            g1 = lab.frame_at(PATH, LINE, 'target', {'v': Gate(second_hit)})
        try:
            handler.trace_call(g1.gi_frame, 'line', None)
        except BaseException as e:      # noqa
            out.violate('trace_call raised %s' % lab.exc_bucket(e))
        finally:
            lab.CLOCK.hook = None
            g1.close()
        hits = depth[0] + 1
        self._bounds(out, recipe, push, fc, period_ns, hits)
        return out

    def _overlap_threads(self, out, recipe, handler, push, fc, period_ns):
        n = recipe['n']
        inside = threading.Semaphore(0)
        release = threading.Event()
        errors = []

        def gate_fn():
            inside.release()
            if not release.wait(20):
                errors.append('gate timeout')

        def worker(i):
            g = lab.frame_at(PATH, LINE, 'target', {'v': Gate(gate_fn)})
            try:
                handler.trace_call(g.gi_frame, 'line', None)
            except BaseException as e:      # noqa
                errors.append('raised %s' % lab.exc_bucket(e))
            finally:
                g.close()

        lab.CLOCK.auto = 1000
        threads = [threading.Thread(target=worker, args=(i,), name='c04-%d' % i) for i in range(n)]
        for t in threads:
            t.start()
        # every thread that gets past can_trigger parks inside collection; those refused never park
        parked = 0
        import time
        deadline = time.time() + 20
        while time.time() < deadline:
            if inside.acquire(timeout=0.05):
                parked += 1
                continue
            alive_unparked = [t for t in threads if t.is_alive()]
            if len(alive_unparked) <= parked:
                break
        release.set()
        for t in threads:
            t.join(20)
        lab.CLOCK.auto = 0
        if any(t.is_alive() for t in threads) or errors:
            raise lab.HarnessError('gated threads did not finish: %s' % errors)
        self._bounds(out, recipe, push, fc, period_ns, n)
        return out

    def _bounds(self, out, recipe, push, fc, period_ns, hits):
        got = len(push.snapshots)
        where = 'overlap during collection (between limit check and record)' if (recipe['at'] in ('collect', 'threads') or
                                                                             (recipe.get('nest') and hits >= 3)) \
            else 'overlap at the clock read'
        if fc != -1 and got > fc:
            out.violate('concurrent hits exceed fire_count: %s' % where, {'fire_count': fc, 'collections': got, 'hits': hits,
                                                              'at': recipe['at']})
        ts = sorted(s.ts_nanos for s in push.snapshots)
        for a, b in zip(ts, ts[1:]):
            if b - a < period_ns:
                out.violate('concurrent hits collect closer than fire_period: %s' % where,
                            {'delta_ns': b - a, 'period_ns': period_ns, 'at': recipe['at']})
                break
        if fc == -1 and period_ns == 0 and got < hits:
            out.violate('overlapping hit refused although every limit allows it: %s' % where,
                        {'collections': got, 'hits': hits, 'at': recipe['at']})

    def case_shared_line(self, recipe):
        """Several tracepoints on one line (merged into one trigger when they come in one poll response): every one of
        them keeps its own limits."""
        from deep.grpc import convert_response
        from deepproto.proto.tracepoint.v1.tracepoint_pb2 import TracePointConfig
        out = Outcome()
        out.cls('history', 'shared_line')
        specs = recipe['tps']
        named = [('tp%d' % i, {'fire_count': fc, 'fire_period': fp}) for i, (fc, fp) in enumerate(specs)]
        if recipe['route'] == 'response':
            triggers = convert_response([TracePointConfig(ID=n, path=PATH, line_number=LINE, args=a) for n, a in named])
        else:
            triggers = [build_trigger(n, PATH, LINE, dict(a), [], []) for n, a in named]
        if recipe.get('bad_first'):
            out.cls('shared_line_unreadable_sibling')
            # (the window is only reachable by direct construction, as in the history mode: put it where LocationAction
            # reads it)
            bad = LocationAction('bad', None, {'fire_count': '-1', 'fire_period': '0', 'watches': [], 'frame_type': 'single_frame',
                                               'stack_type': 'stack', recipe['bad_first']: 'tomorrow'},
                                 LocationAction.ActionType.Snapshot)
            triggers.insert(0, Trigger(LineLocation(PATH, LINE, Location.Position.START), [bad]))
        handler, cfg, push = lab.make_handler(triggers)
        models = [Limiter(int(fc), int(fp)) for fc, fp in specs]
        gen = lab.frame_at(PATH, LINE, 'target', {'v': 1})
        allowed = refused = 0
        for hi, g in enumerate(recipe['gaps']):
            lab.CLOCK.advance_ns({'0': 0, '5ms': 5_000_000, '10ms': 10_000_000, '99ms': 99_000_000,
                                  '100ms': 100_000_000, 'large': 10_000_000_000}[g])
            t = lab.CLOCK.now
            n0 = len(push.snapshots)
            try:
                handler.trace_call(gen.gi_frame, 'line', None)
            except BaseException as e:      # noqa
                out.violate('trace_call raised %s' % lab.exc_bucket(e))
                break
            got = sorted(s.tracepoint.id for s in push.snapshots[n0:] if s.tracepoint.id != 'bad')
            exp = []
            for i, m in enumerate(models):
                if m.allows(t):
                    m.fire(t)
                    exp.append('tp%d' % i)
                    allowed += 1
                else:
                    refused += 1
            if got != exp:
                extra = [x for x in got if x not in exp]
                out.violate('tracepoints sharing a line: %s' % ('one of them collected beyond its own limits' if extra
                                                                else 'a due one did not collect'),
                            {'hit': hi, 'expected': exp, 'got': got, 'tps': specs, 'route': recipe['route']})
                break
        gen.close()
        if allowed and refused:
            out.cls('allow_and_refuse')
        out.nontrivial = allowed > 0 and refused > 0
        return out

    def case_across_updates(self, recipe):
        from deep.api.deep import Deep
        from deep.grpc import convert_response
        from deepproto.proto.tracepoint.v1.tracepoint_pb2 import TracePointConfig
        out = Outcome()
        out.cls('across_updates', 'across_updates_' + recipe['subject'])
        cfg = lab.make_cfg({'APP_ROOT': '/app'})
        d = Deep(cfg)
        d.task_handler._pool.shutdown(wait=False)
        pool = lab.ManualPool()
        d.task_handler._pool = pool
        push = lab.RecPush()
        d.trigger_handler._push_service = push
        args = {'fire_count': recipe['fc'], 'fire_period': recipe['fp']}
        also = recipe.get('also') or []
        if 'span' in also:
            args['span'] = 'line'
        if 'log' in also:
            args['log_msg'] = 'v={v}'
        if also:
            out.cls('across_updates_several_actions')
        subject_id = 'svc-subject'
        upd = [0]

        def service_config(n_others):
            upd[0] += 1
            resp = [TracePointConfig(ID='svc-other-%d-%d' % (upd[0], i), path=PATH, line_number=LINE + 10 + i,
                                     args={'fire_count': '-1', 'fire_period': '0'}) for i in range(n_others)]
            if recipe['subject'] == 'service':
                from deepproto.proto.tracepoint.v1.tracepoint_pb2 import Metric, MetricType
                resp.insert(n_others // 2, TracePointConfig(
                    ID=subject_id, path=PATH, line_number=LINE, args=dict(args),
                    metrics=[Metric(name='m_subject', type=MetricType.COUNTER)] if 'metric' in also else []))
            d.config.tracepoints.update_new_config(upd[0], 'H%d' % upd[0], convert_response(resp))
        lazy = [False]
        if recipe['subject'] == 'custom':
            handle = d.register_tracepoint(PATH, LINE, dict(args), [],
                                           [MetricDefinition('m_subject', 'counter')] if 'metric' in also else [])
            subject_id = handle.get_tracepoint_config().id if hasattr(handle, 'get_tracepoint_config') else None
        else:
            service_config(1)
        pool.run_all()
        model = Limiter(int(recipe['fc']), int(recipe['fp']))
        gen = lab.frame_at(PATH, LINE, 'target', {'v': 1})
        others = {}
        allowed = refused = changes_after_fire = 0
        try:
            for oi, op in enumerate(recipe['ops']):
                if op[0] == 'hit':
                    lab.CLOCK.advance_ms(op[1])
                    lab.CLOCK.advance_ns(1)
                    t = lab.CLOCK.now
                    n0 = len(push.snapshots)
                    d.trigger_handler.trace_call(gen.gi_frame, 'line', None)
                    got = len([s_ for s_ in push.snapshots[n0:]
                               if subject_id is None or s_.tracepoint.id == subject_id])
                    exp = model.allows(t)
                    if exp:
                        model.fire(t)
                        allowed += 1
                    else:
                        refused += 1
                    if lazy[0]:
                        lazy[0] = False
                        pool.run_all()
                    if got != (1 if exp else 0):
                        why = 'a due hit did not collect' if exp else (
                            'collected beyond fire_count' if not (model.fc == -1 or model.count < model.fc)
                            else 'collected closer than fire_period')
                        out.violate('while the tracepoint stayed installed across configuration changes: %s (%s '
                                    'tracepoint)' % (why, recipe['subject']),
                                    {'op': oi, 'changes_since_first_fire': changes_after_fire, 'fc': recipe['fc'],
                                     'fp': recipe['fp']})
                        break
                    continue
                if model.count:
                    changes_after_fire += 1
                if op[0] == 'reg_other':
                    if op[1] not in others:
                        others[op[1]] = d.register_tracepoint(PATH, LINE + 20 + op[1], {'fire_count': '-1'}, [], [])
                elif op[0] == 'unreg_other':
                    h = others.pop(op[1], None)
                    if h is not None:
                        h.unregister()
                elif op[0] == 'svc_update':
                    service_config(op[1])
                elif op[0] == 'svc_update_lazy':
                    pool.run_all()
                    service_config(op[1])
                    lazy[0] = True
                    out.cls('hit_between_accepting_and_installing_a_configuration')
                    continue
                elif op[0] == 'nochange':
                    upd[0] += 1
                    d.config.tracepoints.update_no_change(upd[0])
                if not lazy[0]:
                    pool.run_all()
        except BaseException as e:      # noqa
            out.violate('across updates: raised %s' % lab.exc_bucket(e))
        finally:
            gen.close()
        if allowed and refused:
            out.cls('allow_and_refuse')
        if changes_after_fire and refused:
            out.cls('refused_after_a_configuration_change')
        out.nontrivial = changes_after_fire > 0 and allowed > 0 and refused > 0
        return out

    def case_window_args(self, recipe):
        out = Outcome()
        out.cls('window_args')
        out.nontrivial = True
        args = {'fire_count': '-1', 'fire_period': '0', 'window_end': recipe['end']}
        if recipe['start']:
            args['window_start'] = recipe['start']
        trig = build_trigger('tp', PATH, LINE, args, [], [])
        handler, cfg, push = lab.make_handler([trig])
        gen = lab.frame_at(PATH, LINE, 'target', {'v': 1})
        try:
            handler.trace_call(gen.gi_frame, 'line', None)
        except BaseException as e:      # noqa
            out.violate('trace_call raised %s' % lab.exc_bucket(e))
        gen.close()
        # a window that ended at "1" / "1000" lies in the past under every plausible unit (s, ms, us, ns since epoch)
        if push.snapshots:
            out.violate('window_end argument in the past still collects (window args never reach the action)',
                        {'window_end': recipe['end']})
        return out


PROP = C04()
