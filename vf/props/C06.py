"""C06 - collection is total and per-tracepoint independent.

A real paused frame holds generated values (every catalogue kind incl. hostile ones, at any nesting
position) next to sentinel locals; 1-4 actions sit on the same location.  Values are also routed through a
watch result, a captured return value and a captured raised exception.  Oracle: one snapshot per due
snapshot action, convertible to the wire message, sentinels intact, every local has an entry, snapshots
do not share tables, iterators are not consumed.
"""
import sys

from hypothesis import strategies as st

from vf import lab, values, oracle
from vf.core import Prop, Outcome, fd

from deep.api.tracepoint.trigger import Trigger, LineLocation, FunctionLocation, LocationAction, Location, \
    build_trigger
from deep.api.tracepoint.constants import STAGE, METHOD_CAPTURE, LINE_CAPTURE
from deep.grpc import convert_response
from deep.push import convert_snapshot
from deepproto.proto.tracepoint.v1.tracepoint_pb2 import TracePointConfig

ALL_KINDS = (values.SCALAR_KINDS + values.CONTAINER_KINDS + values.NODICT_KINDS + values.HOSTILE_KINDS +
             values.CONTAINER_KINDS)
REPO_TEST_KINDS = {'str', 'int', 'float', 'bool', 'tuple', 'list', 'set', 'frozenset', 'dict', 'list_iter',
                   'list_reviter', 'emptystr', 'none'}
ITER_REMAINING = {'gen': [1, 2, 3], 'map': ['1', '2', '3'], 'zip': [(1, 'a'), (2, 'b')], 'range_iter': [0, 1, 2],
                  'set_iter': [1], 'list_iter': [1, 2, 3], 'list_reviter': [3, 2, 1], 'mailbox': [1, 2, 3]}
SENT = {'s_int': 424242, 's_str': 'sentinel text', 's_list': [7, 'seven']}
LIMITS = oracle.Limits()


def check_sentinels(out, snap, frame_locals, tag):
    """Frame 0 must list exactly the locals; sentinels must be intact."""
    if not snap.frames:
        out.violate('%s: snapshot without frames' % tag)
        return False
    names = [v.name for v in snap.frames[0].variables]
    if sorted(names) != sorted(frame_locals):
        missing = sorted(set(frame_locals) - set(names))
        extra = sorted(set(names) - set(frame_locals))
        kind = 'frame-empty' if not names else ('locals-missing' if missing else 'locals-extra')
        out.violate('%s: %s' % (tag, kind), {'missing': missing[:5], 'extra': extra[:5], 'n_got': len(names)})
        return False
    for v in snap.frames[0].variables:
        if v.vid not in snap.var_lookup:
            out.violate('%s: local has no table entry' % tag, {'name': v.name})
            return False
        if v.name in SENT:
            try:
                oracle.compare_var(snap.var_lookup, v.vid, SENT[v.name], LIMITS, [v.name], 1)
            except oracle.Mismatch as m:
                out.violate('%s: sentinel damaged (%s)' % (tag, m.kind), {'path': m.path, 'detail': m.detail})
                return False
    return True


def closure_ok(snap):
    for f in snap.frames:
        for v in f.variables:
            if v.vid not in snap.var_lookup:
                return 'frame variable %s' % v.name
    for k, var in snap.var_lookup.items():
        for c in var.children:
            if c.vid not in snap.var_lookup:
                return 'child %s of %s' % (c.name, k)
    for w in snap.watches:
        if w.result is not None and w.result.vid not in snap.var_lookup:
            return 'watch %s' % w.expression
    return None


def fingerprint(snap):
    return (len(snap.frames), tuple(len(f.variables) for f in snap.frames), len(snap.var_lookup),
            tuple(sorted(snap.var_lookup.keys())), len(snap.watches))


class C06(Prop):
    id = 'C06'
    level = 'exploration'
    rule = ('object-graph recipe (all %d catalogue kinds incl. hostile dunders, non-UTF-8 text, objects without '
            '__dict__, iterators; nested in list/dict value/dict key/attribute/exception arg) bound to frame locals, '
            'a watch result, a captured return value or raised exception, with 1-4 actions on the location; '
            'non-trivial = a kind outside the ten the repository test covers, or >= 2 actions on one event; '
            'distinct = distinct recipe' % len(set(ALL_KINDS)))
    assumptions = ['hostile dunders are stateless (always raise), so the oracle\'s reading cannot change what the agent sees',
                   'placeholder text for offending values is unconstrained',
                   'capture-stage actions are built as LocationAction objects directly (build_trigger drops the stage), '
                   'as the repository\'s own tests do']
    quick_examples = 1200
    thorough_examples = 6000
    fuzz_runs = 15000
    floors = {'hostile': 0.15, 'nodict': 0.3, 'multi_action': 0.25, 'mode_watch': 0.05, 'mode_return': 0.04,
              'mode_exception': 0.03, 'iterator': 0.08, 'non_utf8': 0.02,
              'different_settings_per_action': 0.1}

    def strategy(self, tier):
        big = tier == 'thorough'
        vals = values.value_recipes(ALL_KINDS, min_nodes=1, max_nodes=14 if big else 8, max_items=4)
        actions = st.lists(st.sampled_from(['snapshot', 'snapshot', 'log', 'metric', 'snapshot+log']), min_size=1,
                           max_size=4)
        return fd({
            'values': vals,
            'locals': st.lists(st.integers(0, 20), min_size=1, max_size=5),
            'sent_first': st.booleans(),
            'actions': actions,
            'route': st.sampled_from(['triggers', 'response']),
            'slow_first': st.sampled_from([False, False, False, True]),
            'mode': st.sampled_from(['locals', 'watch', 'locals', 'return', 'exception', 'watch', 'locals']),
            'frame_type': st.sampled_from(['single_frame', 'all_frame']),
            'self_local': st.sampled_from([None, None, None, 0, 1]),
            'frame_types': st.lists(st.sampled_from(['single_frame', 'all_frame', 'no_frame', 'single_frame']),
                                    min_size=4, max_size=4),
            # frames left below the recursion limit when the hit arrives (None: plenty)
            'headroom': st.one_of(st.none(), st.none(), st.none(), st.none(), st.none(), st.none(), st.none(),
                                  st.integers(3, 90)),
        })

    def run_case(self, recipe):
        out = Outcome()
        lab.reset_world()
        nodes = recipe['values']['nodes']
        vals = values.build(recipe['values'])
        n = len(vals)
        kinds = [nd['k'] for nd in nodes]
        for k in kinds:
            if k in values.HOSTILE_KINDS:
                out.cls('hostile')
            if k in values.NODICT_KINDS:
                out.cls('nodict')
            if k in ('surrogate', 'badbytes'):
                out.cls('non_utf8')
            if k in ITER_REMAINING:
                out.cls('iterator')
        mode = recipe['mode']
        out.cls('mode_' + mode)
        picked = [i % n for i in recipe['locals']]
        hold = {}
        if mode in ('locals', 'watch'):
            for j, i in enumerate(picked):
                hold['h%d' % j] = vals[i]
            if recipe.get('self_local') is not None and mode == 'locals':
                # a local that happens to be called `self` (the collector reads the class of `self` for the frame)
                hold['self'] = vals[picked[recipe['self_local'] % len(picked)]]
                out.cls('hostile_or_odd_self')
        else:
            hold['h0'] = vals[picked[0]] if mode == 'locals' else 0
        if recipe['sent_first']:
            frame_locals = dict(SENT)
            frame_locals.update(hold)
        else:
            frame_locals = dict(hold)
            frame_locals.update(SENT)
        frame_locals['s_list'] = list(SENT['s_list'])

        actions = recipe['actions']
        n_snap = sum(1 for a in actions if a.startswith('snapshot'))
        if len(actions) >= 2:
            out.cls('multi_action')
        if any(k not in REPO_TEST_KINDS for k in kinds) or len(actions) >= 2:
            out.nontrivial = True
        always = {'fire_count': '-1', 'fire_period': '0', 'frame_type': recipe['frame_type']}
        fts = recipe.get('frame_types') or [recipe['frame_type']] * 4
        per_action_ft = [fts[i % len(fts)] for i in range(len(actions))]
        if len({per_action_ft[i] for i, a in enumerate(actions) if a.startswith('snapshot')}) > 1:
            out.cls('different_settings_per_action')
        watches = ['h0'] if mode == 'watch' else []
        path, line = 'c06_target.py', 4
        metric_proc = lab.RecMetricProcessor()
        logger = lab.RecLogger()
        push = lab.RecPush()
        at_push = []
        push.on_push = lambda s: at_push.append(fingerprint(s))

        slow_first = bool(recipe.get('slow_first')) and len(actions) >= 2 and mode in ('locals', 'watch')
        if slow_first:
            # the first tracepoint on the line takes long (a watch that costs half a second): the time it used up is its
            # own - the next tracepoint's snapshot is complete on its own
            out.cls('slow_tracepoint_before_another')

        def slow_w(tp_id):
            return ['SLOW()'] if slow_first and tp_id == 'tp0' else []

        def SLOW():
            lab.CLOCK.advance_ms(500)
            return 'slow'
        if mode in ('locals', 'watch'):
            tps = []
            for i, a in enumerate(actions):
                args = dict(always)
                args['frame_type'] = per_action_ft[i]
                if a == 'log':
                    args.update({'log_msg': 'v={s_int}', 'snapshot': 'no_collect'})
                elif a == 'snapshot+log':
                    args.update({'log_msg': 'v={s_int}'})
                elif a == 'metric':
                    args.update({'snapshot': 'no_collect'})
                tps.append(('tp%d' % i, args, a))
            try:
                if recipe['route'] == 'response':
                    from deepproto.proto.tracepoint.v1.tracepoint_pb2 import Metric, MetricType
                    resp = [TracePointConfig(ID=i, path=path, line_number=line, args=a, watches=watches + slow_w(i),
                                             metrics=[Metric(name='m', type=MetricType.COUNTER)] if k == 'metric' else [])
                            for i, a, k in tps]
                    triggers = convert_response(resp)
                else:
                    from deep.api.tracepoint.tracepoint_config import MetricDefinition
                    triggers = [build_trigger(i, path, line, a, watches + slow_w(i),
                                              [MetricDefinition('m', 'counter')] if k == 'metric' else [])
                                for i, a, k in tps]
            except BaseException as e:      # noqa
                raise lab.HarnessError('install failed in C06: %r' % (e,))
            handler, cfg, _ = lab.make_handler(triggers, plugins=[metric_proc, logger], push=push)
            gen = lab.frame_at(path, line, 'target', frame_locals, globs={'SLOW': SLOW, '__name__': 'c06_target'})
            headroom = recipe.get('headroom')
            try:
                if headroom:
                    # the hit arrives when the application has used up its stack but for a few frames (a recursion
                    # about to hit the limit): the agent may not be able to do its work, it must still not raise
                    out.cls('hit_near_recursion_limit')
                    raised = []

                    def hit():
                        try:
                            handler.trace_call(gen.gi_frame, 'line', None)
                        except BaseException as e:      # noqa
                            raised.append(e)

                    def dive(n):
                        return hit() if n <= 0 else dive(n - 1)
                    here, f = 0, sys._getframe()
                    while f is not None:
                        here, f = here + 1, f.f_back
                    try:
                        dive(sys.getrecursionlimit() - here - headroom)
                    except RecursionError:
                        pass            # not even the call of the trace function fitted: nothing was asked of the agent
                    if raised:
                        out.violate('trace_call raised %s with little stack left' % type(raised[0]).__name__,
                                    {'headroom': headroom})
                    gen.close()
                    lab.reset_world()
                    return out
                handler.trace_call(gen.gi_frame, 'line', None)
            except BaseException as e:      # noqa
                out.violate('trace_call raised %s' % lab.exc_bucket(e))
            finally:
                gen.close()
        else:
            # capture of a return value / raised exception through the deferred callback
            triggers = []
            for i, a in enumerate(actions):
                if not a.startswith('snapshot'):
                    continue
                act = LocationAction('tp%d' % i, None, dict(always, **{STAGE: METHOD_CAPTURE, 'watches': []}),
                                     LocationAction.ActionType.Snapshot)
                triggers.append(Trigger(FunctionLocation(path, 'target', Location.Position.CAPTURE), [act]))
            if not triggers:
                act = LocationAction('tp0', None, dict(always, **{STAGE: METHOD_CAPTURE, 'watches': []}),
                                     LocationAction.ActionType.Snapshot)
                triggers.append(Trigger(FunctionLocation(path, 'target', Location.Position.CAPTURE), [act]))
                n_snap = 1
            handler, cfg, _ = lab.make_handler(triggers, plugins=[metric_proc, logger], push=push)
            gen = lab.frame_at(path, line, 'target', frame_locals)
            value = vals[picked[0]]
            try:
                handler.trace_call(gen.gi_frame, 'call', None)
                if mode == 'return':
                    handler.trace_call(gen.gi_frame, 'return', value)
                else:
                    exc = value if nodes[picked[0]]['k'] in ('exc', 'badstr_exc') else ValueError(value)
                    handler.trace_call(gen.gi_frame, 'exception', (type(exc), exc, None))
            except BaseException as e:      # noqa
                out.violate('trace_call raised %s' % lab.exc_bucket(e))
            finally:
                gen.close()

        errs = sorted(set(lab.LOGS.errors()))
        errtxt = ','.join(errs)[:160]
        # ---- totality ----------------------------------------------------------------------------
        if len(push.snapshots) != n_snap:
            out.violate('snapshot missing (%s) [agent log: %s]' % (mode, errtxt),
                        {'expected': n_snap, 'got': len(push.snapshots), 'kinds': kinds})
        for si, snap in enumerate(push.snapshots):
            tag = 'first snapshot' if si == 0 else 'later snapshot of the same event'
            try:
                msg = convert_snapshot(snap)
            except BaseException as e:      # noqa
                msg = None
                out.violate('convert_snapshot raised %s' % lab.exc_bucket(e))
            if msg is None:
                errs2 = sorted(set(lab.LOGS.errors()) - set(errs))
                out.violate('snapshot not convertible (dropped before sending) [%s]' % ','.join(errs2)[:120],
                            {'kinds': kinds})
            else:
                try:
                    msg.SerializeToString()
                except BaseException as e:      # noqa
                    out.violate('snapshot not serialisable %s' % type(e).__name__, {'kinds': kinds})
            own_ft = recipe['frame_type']
            if mode in ('locals', 'watch'):
                try:
                    own_ft = per_action_ft[int(snap.tracepoint.id[2:])]
                except (ValueError, IndexError):
                    out.violate('snapshot names an unknown tracepoint', {'id': snap.tracepoint.id})
            if own_ft == 'no_frame':
                if snap.frames and snap.frames[0].variables:
                    out.violate('%s: variables collected although its own frame_type is no_frame' % tag)
                continue
            if not check_sentinels(out, snap, list(frame_locals.keys()), tag):
                continue
            dangling = closure_ok(snap)
            if dangling:
                out.violate('%s: dangling reference (%s)' % (tag, dangling.split(' ')[0]), {'where': dangling})
            if mode == 'watch':
                w = [x for x in snap.watches if x.expression == 'h0']
                if len(w) != 1:
                    out.violate('watch result missing', {'n': len(w)})
                elif w[0].result is None and w[0].error is None:
                    out.violate('watch has neither result nor error')
            if mode in ('return', 'exception'):
                w = [x for x in snap.watches if x.source == 'CAPTURE']
                if len(w) != 1:
                    out.violate('capture result missing [agent log: %s]' % errtxt, {'n': len(w)})
        # ---- independence ------------------------------------------------------------------------
        snaps = push.snapshots
        for i in range(len(snaps)):
            for j in range(i + 1, len(snaps)):
                if snaps[i].var_lookup is snaps[j].var_lookup:
                    out.violate('snapshots of one event share one variable table')
                    break
        for fp, snap in zip(at_push, snaps):
            if fp != fingerprint(snap):
                out.violate('snapshot changed after it was pushed')
        # ---- no consumption ----------------------------------------------------------------------
        for i, nd in enumerate(nodes):
            exp = ITER_REMAINING.get(nd['k'])
            if exp is not None:
                try:
                    rest = list(vals[i])
                except BaseException:      # noqa
                    continue
                if rest != exp:
                    out.violate('iterator consumed by collection (%s)' % nd['k'], {'rest': repr(rest)})
        lab.reset_world()
        return out


PROP = C06()
