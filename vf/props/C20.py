"""C20 - plugins are optional: ordered, skipped when inactive, isolated when faulty.

Generated plugin sets (synthetic modules loaded by Deep's own loader: any mix of roles, order values, missing
module / missing class / raising constructor / switched off by configuration; built-in plugins toggled) run
one scenario - start, two hits of a snapshot+log+metric+span tracepoint, shutdown - once fault-free and then
once per fault placement (plugin x callback x call index).  Metamorphic oracle: every *other* plugin receives
exactly the calls of the fault-free run, the snapshot is delivered with the other decorations, every opened
span is closed, every plugin is shut down, start and shutdown return normally.
"""
from hypothesis import strategies as st

from vf import lab, plugsynth
from vf.core import Prop, Outcome, fd

from deep.api.deep import Deep
from deep.config import ConfigService
from deep.config.tracepoint_config import TracepointConfigService
from deepproto.proto.poll.v1.poll_pb2 import PollResponse, ResponseType
from deepproto.proto.tracepoint.v1.tracepoint_pb2 import TracePointConfig, SnapshotResponse, Snapshot, Metric, \
    MetricType

PATH = 'c20_host.py'
ROLES = ['resource', 'decorator', 'logger', 'span', 'metric']
CALLBACKS = {'resource': ['resource'], 'decorator': ['decorate'], 'logger': ['log_tracepoint'],
             'span': ['create_span', 'close'], 'metric': ['counter', 'gauge']}
BUILTINS = {'PLUGIN_OTELPLUGIN': 'False', 'PLUGIN_PROMETHEUSPLUGIN': 'False', 'PLUGIN_OTELMETRICS': 'False'}

_seq_cache = {}


def two_line_frame():
    """A generator paused at line 3, then (after next()) at line 4 of the same function."""
    code = _seq_cache.get('c')
    if code is None:
        code = compile('def target(v):\n    w = v\n    yield\n    yield\n', PATH, 'exec')
        _seq_cache['c'] = code
    ns = {'__name__': 'c20'}
    exec(code, ns)
    g = ns['target'](7)
    next(g)
    return g


class Scenario:
    def __init__(self, recipe, faults):
        self.world = plugsynth.World()
        self.env = {}
        self.twins = False
        self.ends_with = recipe.get('ends_with') or 'line'
        specs = []
        for i, p in enumerate(recipe['plugins']):
            specs.append({'name': 'P%d' % i, 'roles': p['roles'], 'order': p['order'], 'state': p['state'],
                          'ctor': 'raises' if p['state'] == 'ctor_raises' else 'ok',
                          'faults': {cb: [n, recipe.get('fault_kind') or 'E'] for (pi, cb, n) in faults if pi == i}})
            # two plugins that go by the same name (the name defaults to the class name: same-named classes of two
            # packages): they are two plugins, both listed, both loaded. Their switch is shared, so it stays unset here
            prev = recipe['plugins'][i - 1] if i else None
            if p.get('twin') and prev and all(q['state'] == 'ok' and not q.get('switch') for q in (p, prev)):
                specs[i]['display'] = specs[i - 1].get('display') or 'P%d' % (i - 1)
                self.twins = True
        self.specs = specs
        dotted, self.mname = plugsynth.make_module(self.world, specs)
        # the configured plugins are a sequence of dotted names: a list, or just as well a tuple
        custom = dict(BUILTINS, APP_ROOT='/app', PLUGINS=tuple(dotted) if recipe.get('plugins_as') == 'tuple' else dotted,
                      POLL_TIMER=1000, SERVICE_SECURE='False')
        if recipe.get('python_plugin_off'):
            custom['PLUGIN_PYTHONPLUGIN'] = 'False'
        for i, p in enumerate(recipe['plugins']):
            if p['state'] == 'inactive':
                custom['PLUGIN_P%d' % i] = 'False'
            if p['state'] == 'inactive_bool':
                custom['PLUGIN_P%d' % i] = False        # switched off with the boolean instead of the string
            if p['state'] == 'ok' and p.get('switch') == 'bool':
                custom['PLUGIN_P%d' % i] = True         # switched on explicitly, with the boolean
            if p['state'] == 'ok' and p.get('switch') == 'text':
                custom['PLUGIN_P%d' % i] = 'true'
            if p['state'] == 'ok' and p.get('switch') == 'env':
                self.env['DEEP_PLUGIN_P%d' % i] = 'true'    # switched on explicitly, through the environment
            if p['state'] == 'inactive_env':
                self.env['DEEP_PLUGIN_P%d' % i] = 'false'
        self.sent = []

        def responder(method, raw):
            if method.endswith('poll'):
                return PollResponse(ts_nanos=1, current_hash='H', response_type=ResponseType.UPDATE, response=[
                    TracePointConfig(ID='tp', path=PATH, line_number=3,
                                     args={'fire_count': '-1', 'fire_period': '0', 'log_msg': 'w={w}', 'span': 'line'},
                                     watches=[], metrics=[Metric(name='m1', type=MetricType.COUNTER),
                                                          Metric(name='m2', type=MetricType.GAUGE, expression='v')])])
            self.sent.append(Snapshot.FromString(raw))
            return SnapshotResponse()
        import os
        for k, v in self.env.items():
            os.environ[k] = v
        self.cfg = ConfigService(custom, tracepoints=TracepointConfigService())
        self.deep = Deep(self.cfg)
        self.deep.task_handler._pool.shutdown(wait=False)
        self.deep.task_handler._pool = lab.InlinePool()
        self.channel = lab.FakeChannel(responder)
        lab.patch_grpc_start(self.deep, self.channel)
        self.problems = []

    def run(self):
        d = self.deep
        import sys
        import threading
        old = sys.gettrace(), threading.gettrace()
        try:
            try:
                d.start()
            except BaseException as e:      # noqa
                self.problems.append('start raised %s' % type(e).__name__)
                return
            finally:
                sys.settrace(old[0])
                threading.settrace(old[1])
            self.loaded = [type(p).__name__ for p in d.config.plugins
                           if type(p).__name__.startswith('P') and type(p).__name__[1:].isdigit()]
            self.resource = dict(d.config.resource.attributes) if d.config.resource else {}
            for _ in range(4):
                g = two_line_frame()
                try:
                    lab.CLOCK.advance_ms(5)
                    d.trigger_handler.trace_call(g.gi_frame, 'line', None)
                    next(g)
                    if self.ends_with == 'exception':
                        # the line raises: what was opened for it completes on the exception event
                        err = ValueError('line failed')
                        d.trigger_handler.trace_call(g.gi_frame, 'exception', (ValueError, err, None))
                    else:
                        d.trigger_handler.trace_call(g.gi_frame, 'line', None)      # the next line: line spans complete
                except BaseException as e:      # noqa
                    self.problems.append('trace_call raised %s' % type(e).__name__)
                finally:
                    g.close()
            try:
                d.shutdown()
            except BaseException as e:      # noqa
                self.problems.append('shutdown raised %s' % type(e).__name__)
        finally:
            sys.settrace(old[0])
            threading.settrace(old[1])
            try:
                if d.poll.timer:
                    d.poll.timer.stop()
            except BaseException:      # noqa
                pass
            plugsynth.drop_module(self.mname)
            lab.thread_local_store().clear()
            import os
            for k in self.env:
                os.environ.pop(k, None)


class C20(Prop):
    id = 'C20'
    level = 'fault_enumeration'
    rule = ('plugin set of 0-4 synthetic plugins (roles from resource/decorator/logger/span/metric, order -2..3 incl. '
            'equal, state ok / missing module / missing class / raising constructor / switched off) x built-in python '
            'plugin on/off; scenario = start, four hits of a snapshot+log+2-metric+span tracepoint, shutdown; fault '
            'placements = (plugin, callback, call index) over the calls of the fault-free run - sampled (quick) or all '
            '(thorough); non-trivial = >= 2 active plugins and >= 1 placement that fired; distinct = distinct recipe')
    assumptions = ['plugin faults are Exception subclasses (BaseException from plugins is exercised for transparency in C01)',
                   'only the first tracepoint logger is used by the agent in the fault-free run too: the metamorphic '
                   'comparison takes the fault-free run as reference for every other plugin',
                   'observation point = recording plugins, the config\'s plugin list / resource, snapshots at the fake channel']
    quick_examples = 600
    thorough_examples = 300
    floors = {'fault_fired': 0.5, 'two_active': 0.4, 'skipped_plugin': 0.15}

    def strategy(self, tier):
        plugin = fd({
            'roles': st.lists(st.sampled_from(ROLES), min_size=1, max_size=3, unique=True),
            # the declared order; a plugin can get that wrong too (text instead of a number)
            'order': st.sampled_from([0, 0, 1, 2, -2, 3, None, 0, 1, '5']),
            'state': st.sampled_from(['ok', 'ok', 'ok', 'ok', 'ok', 'ok', 'ok', 'missing_module', 'ok',
                                      'missing_class', 'ok', 'ctor_raises', 'ok', 'inactive', 'inactive_bool',
                                      'is_active_raises', 'inactive_env']),
            # how an active plugin's switch is spelled: not at all, or explicitly on (bool / text in code, environment)
            'switch': st.sampled_from([None, None, None, 'bool', 'text', 'env']),
            'twin': st.sampled_from([False, False, False, True]),
        })
        return fd({
            'plugins': st.one_of(st.lists(plugin, min_size=0, max_size=4), st.lists(plugin, min_size=2, max_size=4)),
            'python_plugin_off': st.booleans(),
            'placements': st.lists(st.integers(0, 200), min_size=1, max_size=6 if tier == 'quick' else 1),
            'all_placements': st.just(tier != 'quick'),
            # what the failing callback raises: an ordinary error, or the plugins' own "cannot work here" exception
            'fault_kind': st.sampled_from(['E', 'E', 'D']),
            'plugins_as': st.sampled_from(['list', 'list', 'list', 'tuple']),
            'ends_with': st.sampled_from(['line', 'line', 'exception']),
        })

    def run_case(self, recipe):
        out = Outcome()
        lab.reset_world()
        base = Scenario(recipe, [])
        base.run()
        for p in base.problems:
            out.violate('fault-free scenario: %s' % p)
        if base.problems:
            return out
        # ---- loader -------------------------------------------------------------------------------------------
        ok = [(i, p) for i, p in enumerate(recipe['plugins']) if p['state'] == 'ok']
        # a plugin whose declared order is not a number costs only its own contribution: where it ends up (or whether it is
        # loaded at all) is not stated, the others are loaded in their order
        odd = {'P%d' % i for i, p in ok if isinstance(p['order'], str)}
        if odd:
            out.cls('plugin_with_unusable_order')
            base.loaded = [n for n in base.loaded if n not in odd]
            ok = [(i, p) for i, p in ok if 'P%d' % i not in odd]
        exp_loaded = ['P%d' % i for i, p in sorted(ok, key=lambda ip: (ip[1]['order'] or 0))]
        if len(ok) < len(recipe['plugins']):
            out.cls('skipped_plugin')
        if len(ok) >= 2:
            out.cls('two_active')
        if base.twins:
            out.cls('two_plugins_with_one_name')
        if sorted(base.loaded) != sorted(exp_loaded):
            extra = sorted(set(base.loaded) - set(exp_loaded))
            out.violate('loader: %s' % ('an inactive / unloadable plugin was loaded' if extra else
                                        'a loadable plugin was skipped (after another one failed to load?)'),
                        {'expected': exp_loaded, 'loaded': base.loaded})
            return out
        if base.loaded != exp_loaded:
            out.violate('loader: plugins not in their declared order', {'expected': exp_loaded, 'loaded': base.loaded})
            return out
        # resource providers: later (higher order) overrides earlier on the shared key
        provs = [n for n in exp_loaded if 'resource' in recipe['plugins'][int(n[1:])]['roles']]
        odd_provider = any('resource' in recipe['plugins'][int(n[1:])]['roles'] for n in odd)
        if provs and base.resource.get('shared_key') != provs[-1] and not odd_provider:
            out.violate('resource: the provider ordered last does not win the shared key',
                        {'got': base.resource.get('shared_key'), 'expected': provs[-1]})
        # every active plugin takes part in every hit of the fault-free run (4 hits; only the first logger is used)
        per_hit = {'decorator': ['decorate'], 'span': ['create_span', 'close'], 'metric': ['counter', 'gauge']}
        for name in exp_loaded:
            for role in recipe['plugins'][int(name[1:])]['roles']:
                for cb in per_hit.get(role, []):
                    n = len([c for c in base.world.calls if c[0] == name and c[1] == cb])
                    if n != 4:
                        out.violate('fault-free scenario: an active %s plugin got %s calls of %s' % (
                            role, 'fewer' if n < 4 else 'more', cb), {'plugin': name, 'calls': n, 'expected': 4})
                        return out
        # the tracepoint logger is the first logger in declared order - over all loaded plugins, the built-in python
        # plugin (order 0, listed before the configured ones) included
        loggers = [n for n in exp_loaded if 'logger' in recipe['plugins'][int(n[1:])]['roles']]
        if loggers and not odd:
            def declared(n):
                return recipe['plugins'][int(n[1:])]['order'] or 0
            first = loggers[0]
            builtin_first = not recipe.get('python_plugin_off') and declared(first) >= 0
            if declared(first) < 0:
                out.cls('configured_logger_ordered_before_the_built_in_one')
            for n in loggers:
                calls = len([c for c in base.world.calls if c[0] == n and c[1] == 'log_tracepoint'])
                want = 4 if (n == first and not builtin_first) else 0
                if calls != want:
                    out.violate('fault-free scenario: the tracepoint logger is not the first logger in declared order',
                                {'plugin': n, 'calls': calls, 'expected': want, 'order': declared(n),
                                 'python_plugin': not recipe.get('python_plugin_off')})
                    return out
        # ---- placements ---------------------------------------------------------------------------------------
        placements = []
        seen = {}
        for name, cb, _ in base.world.calls:
            seen[(name, cb)] = seen.get((name, cb), 0) + 1
            placements.append((int(name[1:]), cb, seen[(name, cb)]))
        if not placements:
            return out
        # besides "the k-th call fails": "every call fails" (a plugin that is simply broken), once per (plugin, callback)
        always = sorted({(pi, cb, 'all') for (pi, cb, n) in placements})
        # a span has more methods than create and close (events, attributes): a plugin whose spans fail in those is
        # broken in the same way, whether or not the agent calls them today
        always += [(i, 'span_event', 'all') for i, p in ok if 'span' in p['roles']]
        pool = placements + always
        chosen = pool if recipe['all_placements'] else \
            [pool[i % len(pool)] for i in dict.fromkeys(recipe['placements'])] + \
            [always[i % len(always)] for i in list(dict.fromkeys(recipe['placements']))[:2]]
        base_calls = {}
        for name, cb, detail in base.world.calls:
            base_calls.setdefault(name, []).append((cb, _norm(detail)))
        n_base_sent = len(base.sent)
        for pl in chosen:
            sc = Scenario(recipe, [pl])
            sc.run()
            if not sc.world.fired:
                continue
            out.cls('fault_fired')
            if len(ok) >= 2:
                out.nontrivial = True
            who = 'P%d' % pl[0]
            cb = pl[1]
            tag = 'fault in %s' % cb
            for p in sc.problems:
                out.violate('%s: %s' % (tag, p), {'placement': pl})
            if sc.problems:
                break
            calls = {}
            for name, c, detail in sc.world.calls:
                calls.setdefault(name, []).append((c, _norm(detail)))
            bad = None
            for name, exp in base_calls.items():
                if name == who:
                    continue
                if calls.get(name, []) != exp:
                    missing = [c for c in exp if c not in calls.get(name, [])]
                    bad = (name, missing[:2] if missing else 'extra/reordered calls')
                    break
            if bad:
                out.violate('%s: another plugin lost or changed its calls (%s)' % (
                    tag, bad[1][0][0] if isinstance(bad[1], list) and bad[1] else 'calls differ'),
                    {'placement': pl, 'plugin': bad[0], 'missing': bad[1]})
                break
            if len(sc.sent) != n_base_sent:
                out.violate('%s: snapshot not delivered' % tag, {'placement': pl, 'sent': len(sc.sent),
                                                                 'expected': n_base_sent})
                break
            decs = ['dec_P%d' % i for i, p in ok if 'decorator' in p['roles'] and 'P%d' % i != who]
            for snap in sc.sent:
                keys = {kv.key for kv in snap.attributes}
                miss = [k for k in decs if k not in keys]
                if miss:
                    out.violate('%s: decorations of the healthy decorators are missing' % tag, {'missing': miss})
                    break
            open_spans = [s for s in sc.world.spans if s.closed == 0 and not (type(s.plugin).__name__ == who and cb == 'close')]
            if open_spans:
                out.violate('%s: a span that was opened is never closed' % tag,
                            {'placement': pl, 'open': [type(s.plugin).__name__ for s in open_spans]})
                break
            twice = [s for s in sc.world.spans if s.closed > 1]
            if twice:
                out.violate('%s: a span closed twice' % tag)
                break
            sd = {}
            for name, c, _ in sc.world.calls:
                if c == 'shutdown':
                    sd[name] = sd.get(name, 0) + 1
            for name in exp_loaded:
                if sd.get(name, 0) != 1:
                    out.violate('%s: plugin shutdown called %d times' % (tag, sd.get(name, 0)), {'plugin': name})
                    break
        lab.reset_world()
        return out


def _norm(detail):
    """Call details without run-specific ids (snapshot ids, context ids)."""
    if isinstance(detail, tuple) and len(detail) == 3:
        return (detail[0],)          # log message only: ids differ per run
    if isinstance(detail, str) and len(detail) == 32:
        return 'snapshot-id'
    return detail


PROP = C20()
