"""C16 - log tracepoints emit the template with every field evaluated in place.

Templates from a grammar (literal chunks incl. unicode and '%', doubled braces, {expression} fields over locals,
host globals, attribute / index / call / arithmetic expressions, failing expressions) are rendered by an
independent 30-line scanner and compared with what the configured tracepoint logger receives, and - when the
tracepoint also collects - with the snapshot's log message and LOG watch results.
"""
import re

from hypothesis import strategies as st

from vf import lab
from vf.core import Prop, Outcome, fd

from deep.api.tracepoint.trigger import build_trigger
from deep.grpc import convert_response
from deepproto.proto.tracepoint.v1.tracepoint_pb2 import TracePointConfig

PATH, LINE = 'c16_host.py', 4


class Person:
    def __init__(self):
        self.name = 'bob'
        self.age = 7

    def __str__(self):
        return 'Person(bob)'


def shout(x):
    return str(x).upper()


class Unprintable(Exception):
    """An exception of the application whose own text cannot be produced."""

    def __str__(self):
        raise RuntimeError('no text for this error')


def boom_unprintable():
    raise Unprintable()


HOST_GLOBALS = {'GREETING': 'hello', 'shout': shout, 'LIMIT': 10, '__name__': 'c16_host',
                'boom_unprintable': boom_unprintable}
GOOD = ['name', 'count', 'count + 1', 'person', 'person.name', 'person.age * 2', 'items', 'items[0]', 'len(items)',
        "data['k']", 'GREETING', 'shout(name)', 'LIMIT - count', 'name.upper()', '(count, name)', 'None', 'flag',
        'count > 2', "'lit'", 'name + GREETING', '3.5', 'items[-1]', 'str(person)', 'count if flag else 0',
        # a structure of more nodes than one action may collect: the fields after it find the variable budget used up
        'big', 'big',
        # expressions that contain the characters the format-string syntax gives a meaning of its own (':' and '!')
        'count != 2', "name.split(':')", "'a:b'", 'name[1:]', 'items[:2]', "count if count != 1 else 'one'"]
BAD = ['nope', '1/0', 'person.nope', 'items[99]', "data['missing']", 'count +', 'shout()', 'int(name)', 'uuid',
       'deep', 'len(count)', 'boom_unprintable()']
LITERALS = ['', ' ', 'value=', ' and ', 'x', '100% done ', 'café ', '\U0001F600', ' -> ', '%s %d ', 'a.b[c] ',
            'line1\\n', '"quoted" ', "it's ", '$', '#tag ', 'end\n', '\tindent ', '  ']


BIG = [[[[i * 1000 + j * 100 + k * 10 + m for m in range(10)] for k in range(10)] for j in range(10)] for i in range(3)]


WILD = '\x00any text\x00'


def same_text(got, exp):
    """exp may contain WILD where the statement leaves the text of a field open."""
    if WILD not in exp:
        return got == exp
    return isinstance(got, str) and re.fullmatch('.*'.join(re.escape(p) for p in exp.split(WILD)), got, re.S) is not None


def starts_with(got, exp):
    if WILD not in exp:
        return got.startswith(exp), len(exp)
    m = re.match('.*?'.join(re.escape(p) for p in exp.split(WILD)), got, re.S)
    return m is not None, (m.end() if m else 0)


def reference_render(template, frame):
    """The statement, as a scanner: '[deep] ' + literals ({{ -> {, }} -> }) + str(eval(field)) or the error text."""
    out = []
    fields = []
    i, n = 0, len(template)
    while i < n:
        c = template[i]
        if c == '{':
            if i + 1 < n and template[i + 1] == '{':
                out.append('{')
                i += 2
                continue
            j = template.index('}', i)
            expr = template[i + 1:j]
            try:
                text = str(eval(expr, frame.f_globals, frame.f_locals))
                ok = True
            except BaseException as e:      # noqa
                try:
                    text = str(e)
                except BaseException:      # noqa - an error without a text of its own: any text will do for the field
                    text = WILD
                ok = False
            out.append(text)
            fields.append((expr, ok, text))
            i = j + 1
        elif c == '}':
            out.append('}')
            i += 2 if (i + 1 < n and template[i + 1] == '}') else 1
        else:
            out.append(c)
            i += 1
    return '[deep] ' + ''.join(out), fields


WELL_FORMED = re.compile(r'^([^{}]|\{\{|\}\}|\{[^{}!:\[\]]*[^{}!:\[\]\s][^{}!:\[\]]*\})*$')


class C16(Prop):
    id = 'C16'
    level = 'exploration'
    rule = ('template = sequence of parts: literal (ascii / unicode / %% / quotes), "{{", "}}", {field} with a field from '
            '%d evaluable and %d failing expressions over locals, host globals, attributes, indexes, calls; 0-6 fields, '
            'repeated and adjacent fields, fields at both ends, empty template; log-only and log+snapshot tracepoints, '
            'fire_count 1-3 over 3 hits; non-trivial = >= 1 field and >= 1 literal or escaped brace; distinct = '
            'distinct recipe' % (len(GOOD), len(BAD)))
    assumptions = ['expressions contain no braces',
                   'conversion / format-spec syntax ({x!r}, {x:>5}) is not in the statement and not generated as such: '
                   'a field is the expression between the braces, whatever characters it contains',
                   'values in fields have a working str()']
    quick_examples = 1500
    thorough_examples = 6000
    fuzz_runs = 15000
    floors = {'failing_field': 0.15, 'multi_field': 0.2, 'escaped_braces': 0.15, 'log_and_snapshot': 0.3,
              'arbitrary_text': 0.1}

    def strategy(self, tier):
        part = st.one_of(st.tuples(st.just('lit'), st.sampled_from(LITERALS)),
                         st.tuples(st.just('lit'), st.text(alphabet=st.characters(blacklist_characters='{}',
                                                                                 blacklist_categories=['Cs']),
                                                           max_size=8)),
                         st.tuples(st.just('open')), st.tuples(st.just('close')),
                         st.tuples(st.just('field'), st.sampled_from(GOOD)),
                         st.tuples(st.just('field'), st.sampled_from(GOOD)),
                         st.tuples(st.just('field'), st.sampled_from(BAD)))
        raw_alphabet = st.sampled_from(list('{}{}{}!:.[]()%\'" ') + ['name', 'count', 'x', '1', '+', 'é', '\n'])
        raw = st.lists(raw_alphabet, max_size=14).map(lambda l: [['raw', ''.join(l)]])
        return fd({
            'parts': st.one_of(st.lists(part, max_size=9).map(lambda l: [list(p) for p in l]),
                               st.lists(part, max_size=9).map(lambda l: [list(p) for p in l]),
                               st.lists(part, max_size=9).map(lambda l: [list(p) for p in l]), raw),
            'collect': st.booleans(),
            'fire_count': st.sampled_from(['1', '2', '3', '-1']),
            'count': st.integers(0, 5),
            'flag': st.booleans(),
            'watches': st.lists(st.sampled_from(['name', 'count', 'nope']), max_size=1),
            'logger': st.sampled_from(['recording', 'recording', 'python_plugin', 'recording', 'none']),
            'route': st.sampled_from(['args', 'args', 'response']),
            'snapshot_arg': st.sampled_from([None, None, None, 'collect', 'NO_COLLECT', 'No_Collect', 'yes']),
        })

    def run_case(self, recipe):
        out = Outcome()
        lab.reset_world()
        template = ''
        nfields = 0
        raw_mode = False
        for p in recipe['parts']:
            if p[0] == 'raw':
                template = p[1]
                raw_mode = True
                out.cls('arbitrary_text')
                continue
            if p[0] == 'lit':
                template += p[1]
            elif p[0] == 'open':
                template += '{{'
                out.cls('escaped_braces')
            elif p[0] == 'close':
                template += '}}'
                out.cls('escaped_braces')
            else:
                template += '{' + p[1] + '}'
                nfields += 1
                if p[1] in BAD:
                    out.cls('failing_field')
        if nfields >= 2:
            out.cls('multi_field')
        fl = [p[1] for p in recipe['parts'] if p[0] == 'field']
        if 'big' in fl and fl.index('big') < len(fl) - 1 or (recipe['collect'] and fl):
            out.cls('field_after_budget_used_up')
        has_lit = any(p[0] != 'field' and (p[0] != 'lit' or p[1]) for p in recipe['parts'])
        out.nontrivial = nfields >= 1 and has_lit
        args = {'fire_count': recipe['fire_count'], 'fire_period': '0', 'log_msg': template}
        odd_snapshot_arg = False
        if not recipe['collect']:
            args['snapshot'] = 'no_collect'
        else:
            out.cls('log_and_snapshot')
            if recipe.get('snapshot_arg'):
                # any other value of the argument than the one that switches collection off: whether a snapshot comes
                # with the message is not the subject here, the message is
                args['snapshot'] = recipe['snapshot_arg']
                odd_snapshot_arg = recipe['snapshot_arg'] != 'collect'
                out.cls('snapshot_argument_spelled_out')
        watches = list(recipe['watches']) if recipe['collect'] else []
        if recipe.get('route') == 'response':
            # the tracepoint as the service sends it
            out.cls('tracepoint_from_a_poll_response')
            trigs = convert_response([TracePointConfig(ID='tp-log-1', path=PATH, line_number=LINE, args=args,
                                                       watches=watches)])
            if len(trigs) != 1:
                out.violate('a log tracepoint of a poll response was dropped', {'template': template})
                return out
            trig = trigs[0]
        else:
            trig = build_trigger('tp-log-1', PATH, LINE, args, watches, [])
        logger = lab.RecLogger()
        stock = recipe.get('logger') == 'python_plugin'
        no_logger = recipe.get('logger') == 'none' and not (raw_mode and not WELL_FORMED.match(template))
        if no_logger:
            out.cls('no_tracepoint_logger_loaded')
        handler, cfg, push = lab.make_handler([trig], plugins=[] if no_logger else [logger])
        records = []
        if stock:
            # the stock tracepoint logger (PythonPlugin) writes through the deep logger: observe the emitted record
            import logging
            from deep.api.plugin.python import PythonPlugin
            out.cls('stock_python_logger')
            cfg.plugins = [PythonPlugin(config=cfg)]

            class Grab(logging.Handler):
                def emit(self, record):
                    try:
                        records.append(record.getMessage())
                    except BaseException as e:      # noqa - what logging itself would report as a logging error
                        records.append('<unrenderable record: %s>' % type(e).__name__)
            grab = Grab(level=logging.INFO)
            dl = logging.getLogger('deep')
            old_level = dl.level
            dl.setLevel(logging.INFO)
            dl.addHandler(grab)
        fc = int(recipe['fire_count'])
        for hit in range(3):
            lab.CLOCK.advance_ms(1)
            local_values = {'name': 'n%d' % hit, 'count': recipe['count'] + hit, 'person': Person(),
                            'items': [hit, 'two', 3.0], 'data': {'k': 'v%d' % hit}, 'flag': recipe['flag'],
                            'big': BIG}
            gen = lab.frame_at(PATH, LINE, 'target', local_values, globs=HOST_GLOBALS)
            if raw_mode and not WELL_FORMED.match(template):
                # arbitrary text the grammar does not cover: only "no exception escapes, at most one message"
                n_log = len(logger.calls)
                try:
                    handler.trace_call(gen.gi_frame, 'line', None)
                except BaseException as e:      # noqa
                    out.violate('arbitrary template text: trace_call raised %s' % lab.exc_bucket(e), {'template': template})
                gen.close()
                if len(logger.calls) - n_log > 1:
                    out.violate('arbitrary template text: more than one message for one hit')
                continue
            exp_msg, exp_fields = reference_render(template, gen.gi_frame)
            n_log, n_snap = len(logger.calls), len(push.snapshots)
            try:
                handler.trace_call(gen.gi_frame, 'line', None)
            except BaseException as e:      # noqa
                out.violate('trace_call raised %s' % lab.exc_bucket(e))
            gen.close()
            permitted = fc == -1 or hit < fc
            if stock:
                if raw_mode and not WELL_FORMED.match(template):
                    continue
                got = [r for r in records if '[deep]' in r or 'unrenderable' in r]
                del records[:]
                if len(got) != (1 if permitted else 0):
                    out.violate('stock logger: %d emitted records on a %s hit' % (len(got), 'permitted' if permitted
                                                                                  else 'refused'), {'template': template})
                    break
                if permitted:
                    line = got[0]
                    ok_, end_ = starts_with(line, exp_msg)
                    if not ok_:
                        out.violate('stock logger: emitted record does not carry the rendered message',
                                    {'expected': exp_msg[:120], 'got': line[:160]})
                        break
                    if 'tracepoint=tp-log-1' not in line[end_:] or not re.search(
                            r'ctx=[0-9a-f]{8}-[0-9a-f]{4}-', line[end_:]):
                        out.violate('stock logger: emitted record is not labelled with tracepoint id and context id',
                                    {'got': line[-120:]})
                        break
                continue
            new_logs = logger.calls[n_log:]
            new_snaps = push.snapshots[n_snap:]
            if no_logger:
                # nobody to hand the message to: a collecting tracepoint still records it on its snapshot
                if permitted and recipe['collect'] and not odd_snapshot_arg:
                    if len(new_snaps) != 1:
                        out.violate('log+snapshot tracepoint produced %d snapshots' % len(new_snaps))
                        break
                    if not same_text(new_snaps[0].log_msg, exp_msg):
                        out.violate('snapshot log message differs from the template rendering (no logger loaded)',
                                    {'snapshot': str(new_snaps[0].log_msg)[:120], 'expected': exp_msg[:120]})
                        break
                continue
            if len(new_logs) != (1 if permitted else 0):
                errs = ','.join(sorted(set(lab.LOGS.errors())))[:120]
                out.violate('%s log messages on a %s hit [%s]' % (len(new_logs), 'permitted' if permitted else 'refused',
                                                                  errs), {'template': template, 'hit': hit})
                break
            if not permitted:
                continue
            msg, tp_id, ctx_id, _ = new_logs[0]
            if not same_text(msg, exp_msg):
                what = 'prefix' if not msg.startswith('[deep] ') else \
                    'failing field' if any(not ok for _, ok, _ in exp_fields) else \
                    'escaped brace' if ('{{' in template or '}}' in template) else 'field or literal'
                out.violate('log text differs from the template rendering (%s)' % what,
                            {'template': template, 'expected': exp_msg[:200], 'got': msg[:200]})
                break
            if tp_id != 'tp-log-1':
                out.violate('logger did not receive the tracepoint id in its tracepoint-id place',
                            {'tp_id_arg': tp_id, 'ctx_id_arg': ctx_id})
                break
            if not re.fullmatch(r'[0-9a-f]{8}-[0-9a-f]{4}-[0-9a-f]{4}-[0-9a-f]{4}-[0-9a-f]{12}', str(ctx_id)):
                out.violate('logger did not receive the context id in its context-id place', {'ctx_id_arg': ctx_id})
                break
            if recipe['collect'] and not (odd_snapshot_arg and not new_snaps):
                if len(new_snaps) != 1:
                    out.violate('log+snapshot tracepoint produced %d snapshots' % len(new_snaps))
                    break
                snap = new_snaps[0]
                if snap.attributes.get('context') != ctx_id:
                    out.violate('context id given to the logger is not the snapshot\'s context id')
                    break
                if not same_text(snap.log_msg, exp_msg):
                    out.violate('snapshot log message differs from the emitted one', {'snapshot': str(snap.log_msg)[:120]})
                    break
                lw = [w for w in snap.watches if w.source == 'LOG']
                if [w.expression for w in lw] != [e for e, _, _ in exp_fields]:
                    out.violate('LOG watch results do not match the fields one to one, in order',
                                {'got': [w.expression for w in lw], 'fields': [e for e, _, _ in exp_fields]})
                    break
                for w, (expr, ok, text) in zip(lw, exp_fields):
                    if ok and (w.result is None or w.result.vid not in snap.var_lookup):
                        out.violate('LOG watch of an evaluable field has no resolvable result', {'expr': expr})
                        break
                    if not ok and w.error is None:
                        out.violate('LOG watch of a failing field carries no error', {'expr': expr})
                        break
                ww = [w.expression for w in snap.watches if w.source == 'WATCH']
                if ww != list(recipe['watches']):
                    out.violate('configured watches disturbed by the log fields')
                    break
            else:
                if new_snaps:
                    out.violate('log-only tracepoint produced a snapshot')
                    break
        if stock:
            dl.removeHandler(grab)
            dl.setLevel(old_level)
        lab.reset_world()
        return out


PROP = C16()
