"""C08 - wire fidelity: the service receives every snapshot field intact, with auth.

(a) snapshots produced by the real collector from generated frames (any text incl. NUL / astral / lone surrogates,
    error watches, name-mangled children, truncated strings, log messages);
(b) synthetic EventSnapshots over every constructor field (ids up to 2**128-1, all StackFrame fields, attribute and
    resource values of every kind incl. sequences, all four watch sources);
(c) auth configurations (none, basic with any unicode credentials, generated custom providers, empty metadata).
Oracle: an independent projection of the Python snapshot written from the .proto field list must equal the
projection of the message actually handed to the channel (after serialisation and re-parsing); every poll
and send carries exactly the provider's metadata.
"""
import base64
import os
import sys
import types

from hypothesis import strategies as st

from vf import lab, values
from vf.core import Prop, Outcome, fd
from vf.props.C06 import SENT

from deep.api.attributes import BoundedAttributes
from deep.api.resource import Resource
from deep.api.tracepoint import EventSnapshot, StackFrame, Variable, VariableId, WatchResult
from deep.api.tracepoint.tracepoint_config import TracePointConfig
from deep.api.tracepoint.trigger import build_trigger
from deep.api.auth import AuthProvider
from deep.grpc import GRPCService
from deep.poll import LongPoll
from deep.push.push_service import PushService
from deep.task import TaskHandler
from deepproto.proto.tracepoint.v1.tracepoint_pb2 import Snapshot, SnapshotResponse
from deepproto.proto.poll.v1.poll_pb2 import PollResponse, ResponseType

SOURCES = ['WATCH', 'LOG', 'METRIC', 'CAPTURE']
SURROGATE = '\ud800'


def clean_text(s):
    """What can be demanded for text protobuf cannot carry: it is compared with unencodable characters masked."""
    if s is None:
        return None
    try:
        s.encode('utf-8')
        return s
    except UnicodeEncodeError:
        return Unencodable(s)


class Unencodable:
    """Text with characters protobuf cannot carry.  How those are replaced is not stated; what can be demanded is that
    everything else arrives, in order, and that the field does not grow (a value cut to the string limit by the
    collector must not get longer on its way out)."""

    def __init__(self, text):
        self.text = text

    def matches(self, wire):
        if not isinstance(wire, str) or len(wire) > len(self.text):
            return False
        pos = 0
        run = ''
        for ch in self.text + '\ud800':
            if 0xD800 <= ord(ch) <= 0xDFFF:
                if run:
                    at = wire.find(run, pos)
                    if at < 0:
                        return False
                    pos = at + len(run)
                    run = ''
            else:
                run += ch
        return True


class Present:
    """The field has to arrive with some value."""


PRESENT = Present()


def any_value_py(av):
    which = av.WhichOneof('value')
    if which is None:
        return ('empty',)
    v = getattr(av, which)
    if which == 'array_value':
        return ('list', [any_value_py(x) for x in v.values])
    if which == 'kvlist_value':
        return ('dict', sorted((kv.key, any_value_py(kv.value)) for kv in v.values))
    return (which, v)


def any_value_expected(v):
    if isinstance(v, bool):
        return ('bool_value', v)
    if isinstance(v, str):
        return ('string_value', clean_text(v))
    if isinstance(v, int):
        if not -2 ** 63 <= v < 2 ** 63:
            return PRESENT          # how a number the wire type cannot hold is represented is not stated
        return ('int_value', v)
    if isinstance(v, float):
        return ('double_value', v)
    if isinstance(v, bytes):
        return ('bytes_value', v)
    if isinstance(v, dict):
        return ('dict', sorted((k, any_value_expected(x)) for k, x in v.items()))
    if isinstance(v, (list, tuple)):
        return ('list', [any_value_expected(x) for x in v])
    return ('empty',)


def vid_expected(v):
    return {'ID': v.vid, 'name': clean_text(v.name), 'modifiers': list(v.modifiers or []),
            'original_name': clean_text(v.original_name) if v.original_name is not None else ''}


def expect(s):
    """Projection of the Python snapshot, from the .proto field list."""
    tp = s.tracepoint
    return {
        'ID': s.id.to_bytes(16, 'big'),
        'tracepoint': {'ID': tp.id, 'path': tp.path, 'line_number': tp.line_no, 'args': dict(tp.args),
                       'watches': list(tp.watches)},
        'var_lookup': {k: {'type': v.type, 'value': clean_text(v.value), 'hash': v.hash,
                           'children': [vid_expected(c) for c in v.children], 'truncated': bool(v.truncated)}
                       for k, v in s.var_lookup.items()},
        'ts_nanos': s.ts_nanos,
        'frames': [{'file_name': clean_text(f.file_name), 'short_path': clean_text(f.short_path),
                    'method_name': clean_text(f.method_name),
                    'line_number': f.line_number, 'class_name': clean_text(f.class_name or ''), 'is_async': bool(f.is_async),
                    'column_number': f.column_number or 0,
                    'transpiled_file_name': clean_text(f.transpiled_file_name or ''),
                    'transpiled_line_number': f.transpiled_line_number or 0,
                    'transpiled_column_number': f.transpiled_column_number or 0,
                    'variables': [vid_expected(v) for v in f.variables], 'app_frame': bool(f.app_frame)}
                   for f in s.frames],
        'watches': [{'expression': clean_text(w.expression), 'good': vid_expected(w.result) if w.result is not None else None,
                     'error': clean_text(w.error) if w.error is not None else None, 'source': w.source}
                    for w in s.watches],
        'attributes': sorted((k, any_value_expected(v)) for k, v in s.attributes.items()),
        'duration_nanos': s.duration_nanos,
        'resource': sorted((k, any_value_expected(v)) for k, v in s.resource.attributes.items()),
        'log_msg': clean_text(s.log_msg) if s.log_msg is not None else '',
    }


def vid_wire(v):
    return {'ID': v.ID, 'name': v.name, 'modifiers': list(v.modifiers), 'original_name': v.original_name}


def project(m):
    from deepproto.proto.tracepoint.v1.tracepoint_pb2 import WatchSource
    return {
        'ID': m.ID,
        'tracepoint': {'ID': m.tracepoint.ID, 'path': m.tracepoint.path, 'line_number': m.tracepoint.line_number,
                       'args': dict(m.tracepoint.args), 'watches': list(m.tracepoint.watches)},
        'var_lookup': {k: {'type': v.type, 'value': v.value, 'hash': v.hash, 'children': [vid_wire(c) for c in v.children],
                           'truncated': v.truncated} for k, v in m.var_lookup.items()},
        'ts_nanos': m.ts_nanos,
        'frames': [{'file_name': f.file_name, 'short_path': f.short_path, 'method_name': f.method_name,
                    'line_number': f.line_number, 'class_name': f.class_name, 'is_async': f.is_async,
                    'column_number': f.column_number, 'transpiled_file_name': f.transpiled_file_name,
                    'transpiled_line_number': f.transpiled_line_number,
                    'transpiled_column_number': f.transpiled_column_number,
                    'variables': [vid_wire(v) for v in f.variables], 'app_frame': f.app_frame} for f in m.frames],
        'watches': [{'expression': w.expression, 'good': vid_wire(w.good_result) if w.HasField('good_result') else None,
                     'error': w.error_result if w.HasField('error_result') else None,
                     'source': WatchSource.Name(w.source)} for w in m.watches],
        'attributes': sorted((kv.key, any_value_py(kv.value)) for kv in m.attributes),
        'duration_nanos': m.duration_nanos,
        'resource': sorted((kv.key, any_value_py(kv.value)) for kv in m.resource),
        'log_msg': m.log_msg,
    }


def first_diff(exp, got, path=''):
    """First differing field; None in the expectation is a wildcard (field must merely be present)."""
    if isinstance(exp, Present):
        return None if got != ('empty',) else '%s is empty' % path
    if isinstance(exp, Unencodable):
        return None if exp.matches(got) else '%s differs (text with unencodable characters: the rest must arrive, in ' \
                                             'order, and the field must not grow)' % path
    if isinstance(exp, dict) and isinstance(got, dict):
        for k in exp:
            if k not in got:
                return '%s.%s missing' % (path, k)
            d = first_diff(exp[k], got[k], '%s.%s' % (path, k))
            if d:
                return d
        extra = [k for k in got if k not in exp]
        if extra:
            return '%s has extra entry' % path
        return None
    if isinstance(exp, list) and isinstance(got, list):
        if len(exp) != len(got):
            return '%s length %d != %d' % (path, len(got), len(exp))
        for i, (a, b) in enumerate(zip(exp, got)):
            d = first_diff(a, b, '%s[%d]' % (path, i))
            if d:
                return d
        return None
    if isinstance(exp, tuple) and isinstance(got, tuple):
        return first_diff(list(exp), list(got), path)
    if isinstance(exp, float) and isinstance(got, float) and exp != exp and got != got:
        return None
    if exp != got:
        return '%s differs' % path
    return None


def field_class(diff):
    d = diff.lstrip('.')
    for name in ('var_lookup', 'frames', 'watches', 'attributes', 'resource', 'tracepoint', 'log_msg', 'ID', 'ts_nanos',
                 'duration_nanos'):
        if d.startswith(name):
            tail = d.split('.')[-1].split(' ')[0]
            return '%s/%s' % (name, tail.split('[')[0])
    return d


TEXT = st.one_of(st.sampled_from(['', 'a', 'name', 'x' * 50, 'nul\x00byte', 'astral\U0001F600', 'é', 'tab\t', '"q"']),
                 st.text(max_size=6, alphabet=st.characters(blacklist_categories=['Cs'])))
# text as the file system / environment hands it to Python (os.fsdecode: undecodable bytes become lone surrogates)
FS_TEXT = st.one_of(TEXT, TEXT, st.sampled_from(['/srv/app/caf\udce9/mod.py', 'sur\ud800x', '\udc80', 'a\udc80b\udcffc']))
SCALAR = st.one_of(st.booleans(), TEXT, st.integers(-2 ** 63, 2 ** 63 - 1), st.floats(allow_nan=False), st.binary(max_size=4))
ATTR_VALUE = st.one_of(SCALAR, st.lists(st.integers(0, 5), max_size=3), st.lists(TEXT, max_size=3),
                       st.dictionaries(st.sampled_from(['a', 'b']), SCALAR, max_size=2),
                       # what a decorator plugin or the environment can put there: paths, counters of any size, sequences
                       # with holes (BoundedAttributes accepts None elements)
                       FS_TEXT, st.sampled_from([2 ** 63, 2 ** 70, -2 ** 63 - 1]),
                       st.lists(st.one_of(st.none(), st.sampled_from(['p', 'q'])), min_size=1, max_size=3))
VID = fd({'vid': st.sampled_from(['1', '2', '3', '10']), 'name': TEXT,
                             'modifiers': st.lists(st.sampled_from(['private', 'protected']), max_size=2),
                             'original_name': st.one_of(st.none(), TEXT)})


class Loopback:
    """One real grpc.server on 127.0.0.1:<ephemeral> per process, recording what arrives after real transport."""
    instance = None

    def __init__(self):
        import concurrent.futures
        import grpc
        from deepproto.proto.tracepoint.v1 import tracepoint_pb2_grpc
        from deepproto.proto.poll.v1 import poll_pb2_grpc
        self.snapshots = []
        self.polls = []
        outer = self

        class Snap(tracepoint_pb2_grpc.SnapshotServiceServicer):
            def send(self, request, context):
                outer.snapshots.append((request, [(m.key, m.value) for m in context.invocation_metadata()]))
                return SnapshotResponse()

        class Poll(poll_pb2_grpc.PollConfigServicer):
            def poll(self, request, context):
                outer.polls.append((request, [(m.key, m.value) for m in context.invocation_metadata()]))
                return PollResponse(ts_nanos=1, current_hash='', response_type=ResponseType.NO_CHANGE)
        # the service side takes messages of any size: what the *client* lets out is the subject
        self.server = grpc.server(concurrent.futures.ThreadPoolExecutor(2),
                                  options=[('grpc.max_receive_message_length', -1)])
        tracepoint_pb2_grpc.add_SnapshotServiceServicer_to_server(Snap(), self.server)
        poll_pb2_grpc.add_PollConfigServicer_to_server(Poll(), self.server)
        self.port = self.server.add_insecure_port('127.0.0.1:0')
        self.server.start()

    @classmethod
    def get(cls):
        if cls.instance is None:
            cls.instance = Loopback()
        return cls.instance


class C08(Prop):
    id = 'C08'
    level = 'exploration'
    rule = ('(a) collector-produced snapshots from generated frames (whole value catalogue, watches incl. failing ones, '
            'log messages, mangled names, truncation); (b) synthetic snapshots over every constructor field; (c) auth: '
            'none / basic (any unicode, None either side) / generated custom provider / empty metadata, observed on every '
            'poll and send at the fake channel, sends issued by the real PushService on a worker. non-trivial = snapshot '
            'with >= 1 frame, >= 1 variable with children and >= 1 watch, or an auth case with non-empty metadata; distinct '
            '= distinct recipe')
    assumptions = ['tracepoint args are str -> str (the service\'s map type); metadata keys are lower-case ASCII',
                   'text protobuf cannot carry (lone surrogates): the field only has to be present, everything else equal',
                   'TLS channel credentials are not exercised (no certificates in the sandbox)']
    quick_examples = 900
    thorough_examples = 5000
    fuzz_runs = 8000
    floors = {'collector': 0.15, 'synthetic': 0.15, 'auth': 0.08, 'auth_basic': 0.02, 'sequence_attribute': 0.035,
              'surrogate_text': 0.015, 'loopback_transport': 0.03}

    def strategy(self, tier):
        kinds = values.SCALAR_KINDS + values.CONTAINER_KINDS + ['bytes', 'badbytes', 'deque', 'slots', 'enum', 'obj', 'obj']
        collector = fd({
            'mode': st.just('collector'),
            'values': values.value_recipes(kinds, min_nodes=1, max_nodes=8, max_items=4),
            'locals': st.lists(st.integers(0, 20), min_size=1, max_size=4),
            'watches': st.lists(st.sampled_from(['h0', 's_int', 'nope', '1/0', 's_list[0]', 'chr(0xd800)']), max_size=2),
            'log_msg': st.sampled_from([None, 'v={s_int}', 'bad {nope}', 'sur {h0}']),
            'res': st.dictionaries(st.sampled_from(['r1', 'r2']), ATTR_VALUE, max_size=2),
            # further arguments on the tracepoint as the service sends them (text -> text): known ones and others
            'extra_args': st.dictionaries(
                st.sampled_from(['MAX_VARIABLES', 'MAX_STRING_LENGTH', 'MAX_COLLECTION_SIZE', 'MAX_VAR_DEPTH',
                                 'MAX_TP_PROCESS_TIME', 'frame_type', 'stack_type', 'note']),
                st.sampled_from(['5', '50', '1000', 'x', 'all_frame', 'stack', '']), max_size=2),
        })
        frame = fd({'file_name': FS_TEXT, 'short_path': FS_TEXT, 'method_name': TEXT,
                                       'line_number': st.integers(0, 2 ** 31 - 1),
                                       'class_name': st.one_of(st.none(), TEXT), 'is_async': st.booleans(),
                                       'column_number': st.integers(0, 1000),
                                       'transpiled_file_name': st.one_of(st.none(), TEXT),
                                       'transpiled_line_number': st.integers(0, 1000),
                                       'transpiled_column_number': st.integers(0, 1000),
                                       'app_frame': st.booleans(), 'variables': st.lists(VID, max_size=2)})
        variable = fd({'type': TEXT, 'value': TEXT, 'hash': TEXT, 'truncated': st.booleans(),
                                          'children': st.lists(VID, max_size=3)})
        watch = fd({'source': st.sampled_from(SOURCES), 'expression': TEXT,
                                       'result': st.one_of(st.none(), VID), 'error': TEXT})
        synthetic = fd({
            'mode': st.just('synthetic'),
            'id': st.one_of(st.integers(0, 2 ** 128 - 1), st.sampled_from([0, 1, 2 ** 128 - 1, 2 ** 64])),
            'tp': fd({'id': TEXT, 'path': TEXT, 'line': st.integers(-1, 10 ** 6),
                                         'args': st.dictionaries(TEXT, TEXT, max_size=3),
                                         'watches': st.lists(TEXT, max_size=2)}),
            'ts': st.integers(0, 2 ** 63 - 1), 'duration': st.integers(0, 2 ** 62),
            'frames': st.lists(frame, max_size=3),
            # the same call site several times on the stack (recursion through an inherited method): frames that agree in
            # file, function and line and differ in the class of self, none of them carrying variables
            'twins': st.sampled_from([0, 0, 0, 2, 3]),
            'vars': st.dictionaries(st.sampled_from(['1', '2', '3', '10']), variable, max_size=4),
            'watches': st.lists(watch, max_size=3),
            'attributes': st.dictionaries(st.sampled_from(['a', 'b', 'c']), ATTR_VALUE, max_size=3),
            'resource': st.dictionaries(st.sampled_from(['r1', 'r2']), ATTR_VALUE, max_size=2),
            'log_msg': st.one_of(st.none(), TEXT),
        })
        auth = fd({
            'mode': st.just('auth'),
            'kind': st.one_of(*[st.just(k) for k in ['basic', 'none', 'basic', 'custom', 'empty_string', 'basic',
                                                     'custom_empty', 'custom_flaky']]),
            'user': st.one_of(st.none(), TEXT, st.just(''), st.just('bob')),
            'password': st.one_of(st.none(), TEXT, st.just(''), st.just('pw')),
            'metadata': st.lists(st.tuples(st.sampled_from(['authorization', 'x-api-key', 'x-tenant']),
                                           st.text(alphabet='abcXYZ019 =+/', max_size=8)), max_size=3).map(
                lambda l: [list(t) for t in l]),
            'polls': st.integers(1, 3), 'sends': st.integers(0, 3),
            'via': st.sampled_from(['code', 'code', 'env']),
        })
        loopback = fd({'mode': st.just('loopback'), 'inner': synthetic,
                       # a full table: as many entries as the default limits allow, values of 1024 four-byte characters,
                       # long child names (several MB on the wire)
                       'table': st.sampled_from([0, 0, 0, 0, 300, 1001]),
                       'metadata': st.lists(st.tuples(st.sampled_from(['authorization', 'x-api-key']),
                                                      st.text(alphabet='abcXYZ019 =+/', max_size=8)), max_size=2).map(
                           lambda l: [list(t) for t in l])})
        return st.one_of(collector, collector, synthetic, synthetic, auth, auth, loopback)

    def run_case(self, recipe):
        lab.reset_world()
        try:
            return getattr(self, 'case_' + recipe['mode'])(recipe)
        finally:
            sys.modules.pop('vf_auth_dyn', None)
            lab.reset_world()

    # -------------------------------------------------------------------------------------------------
    def through_the_wire(self, out, snap, tag):
        """Real PushService + TaskHandler + fake channel: the bytes the channel got, re-parsed."""
        channel = lab.FakeChannel(lambda method, raw: SnapshotResponse())

        class G:
            pass
        g = G()
        g.channel = channel
        g.metadata = lambda: [('k', 'v')]
        th = TaskHandler()
        ps = PushService(g, th)
        import threading
        pusher = threading.current_thread().name
        try:
            ps.push_snapshot(snap)
            th.flush()
        finally:
            th._pool.shutdown(wait=True)
        sends = channel.of('send')
        if len(sends) != 1:
            errs = ','.join(sorted(set(lab.LOGS.errors())))[:120]
            out.violate('%s snapshot never reached the channel (dropped in conversion) [%s]' % (tag, errs))
            return None
        if sends[0]['thread'] == pusher:
            out.violate('snapshot sent on the pushing thread')
        msg = Snapshot.FromString(sends[0]['bytes'])
        if Snapshot.FromString(msg.SerializeToString()) != msg:
            out.violate('message does not survive a serialisation round trip')
        return msg

    def compare(self, out, snap, tag):
        msg = self.through_the_wire(out, snap, tag)
        if msg is None:
            return
        d = first_diff(expect(snap), project(msg))
        if d:
            out.violate('%s snapshot: field differs on the wire: %s' % (tag, field_class(d)), {'where': d})

    def case_collector(self, r):
        out = Outcome()
        out.cls('collector')
        vals = values.build(r['values'])
        n = len(vals)
        frame_locals = dict(SENT)
        for j, i in enumerate(r['locals']):
            frame_locals['h%d' % j] = vals[i % n]
        if any(nd['k'] == 'surrogate' for nd in r['values']['nodes']) or 'chr(0xd800)' in r['watches']:
            out.cls('surrogate_text')
        args = dict(r.get('extra_args') or {})
        args.update({'fire_count': '-1', 'fire_period': '0'})
        if r['log_msg']:
            args['log_msg'] = r['log_msg']
        trig = build_trigger('tp-w', 'c08_host.py', 4, args, list(r['watches']), [])
        handler, cfg, push = lab.make_handler([trig])
        if r['res']:
            cfg.resource = Resource.create(dict(r['res']))
            if any(isinstance(v, list) for v in r['res'].values()):
                out.cls('sequence_attribute')
        gen = lab.frame_at('c08_host.py', 4, 'target', frame_locals)
        try:
            handler.trace_call(gen.gi_frame, 'line', None)
        finally:
            gen.close()
        if len(push.snapshots) != 1:
            return out          # totality of collection is C06's subject
        snap = push.snapshots[0]
        out.nontrivial = bool(snap.frames) and any(v.children for v in snap.var_lookup.values()) and bool(snap.watches)
        self.compare(out, snap, 'collector-produced')
        return out

    def build_synthetic(self, r):
        def mk_vid(d):
            return VariableId(d['vid'], d['name'], list(d['modifiers']), d['original_name'])
        tp = TracePointConfig(r['tp']['id'], r['tp']['path'], r['tp']['line'], dict(r['tp']['args']),
                              list(r['tp']['watches']), [])
        frames = [StackFrame(f['file_name'], f['short_path'], f['method_name'], f['line_number'],
                             [mk_vid(v) for v in f['variables']], f['class_name'], f['is_async'], f['column_number'],
                             f['transpiled_file_name'], f['transpiled_line_number'], f['transpiled_column_number'],
                             f['app_frame']) for f in r['frames']]
        if r.get('twins') and r['frames']:
            f = r['frames'][0]
            frames = frames + [StackFrame(f['file_name'], f['short_path'], f['method_name'], f['line_number'], [],
                                          'Class%d' % i, f['is_async'], f['column_number'], f['transpiled_file_name'],
                                          f['transpiled_line_number'], f['transpiled_column_number'], f['app_frame'])
                               for i in range(r['twins'])]
        lookup = {k: Variable(v['type'], v['value'], v['hash'], [mk_vid(c) for c in v['children']], v['truncated'])
                  for k, v in r['vars'].items()}
        snap = EventSnapshot(tp, r['ts'], Resource(dict(r['resource'])), frames, lookup)
        snap._id = r['id']
        snap._duration_nanos = r['duration']
        for w in r['watches']:
            if w['result'] is not None:
                snap.add_watch_result(WatchResult(w['source'], w['expression'], mk_vid(w['result'])))
            else:
                snap.add_watch_result(WatchResult(w['source'], w['expression'], None, w['error']))
        snap.attributes.merge_in(dict(r['attributes']))
        snap.log_msg = r['log_msg']
        return snap

    def case_synthetic(self, r):
        out = Outcome()
        out.cls('synthetic')
        snap = self.build_synthetic(r)
        frames = snap.frames
        if any(isinstance(v, list) for v in list(r['attributes'].values()) + list(r['resource'].values())):
            out.cls('sequence_attribute')
        out.nontrivial = bool(frames) and any(v['children'] for v in r['vars'].values()) and bool(r['watches'])
        self.compare(out, snap, 'synthetic')
        return out

    def case_loopback(self, r):
        """The same comparison after real HTTP/2 transport to a loopback grpc.server, with a custom auth provider."""
        out = Outcome()
        out.cls('loopback_transport')
        lb = Loopback.get()
        del lb.snapshots[:]
        del lb.polls[:]
        md = [tuple(x) for x in r['metadata']]
        mod = types.ModuleType('vf_auth_dyn')

        class Prov(AuthProvider):
            def provide(self):
                return list(md)
        mod.Prov = Prov
        sys.modules['vf_auth_dyn'] = mod
        cfg = lab.make_cfg({'APP_ROOT': '/app', 'SERVICE_URL': '127.0.0.1:%d' % lb.port, 'SERVICE_SECURE': 'False',
                            'SERVICE_AUTH_PROVIDER': 'vf_auth_dyn.Prov'})
        g = GRPCService(cfg)
        g.start()
        th = TaskHandler()
        try:
            snap = self.build_synthetic(r['inner'])
            if r.get('table'):
                out.cls('huge_table')
                big = '\U0001f600' * 1024
                for i in range(r['table']):
                    snap.var_lookup['T%d' % i] = Variable('str', big, 'h%d' % i, [VariableId(
                        'T%d' % ((i + 1) % r['table']), 'child_' + 'n' * 300, [], None)], True)
            LongPoll(cfg, g).poll()
            PushService(g, th).push_snapshot(snap)
            th.flush()
        except BaseException as e:      # noqa
            out.violate('loopback: poll / send raised %s' % lab.exc_bucket(e))
            return out
        finally:
            th._pool.shutdown(wait=True)
            try:
                g.channel.close()
            except BaseException:      # noqa
                pass
        out.nontrivial = True
        if len(lb.snapshots) != 1 or len(lb.polls) != 1:
            out.violate('loopback: the server did not receive exactly one poll and one snapshot',
                        {'polls': len(lb.polls), 'snapshots': len(lb.snapshots)})
            return out
        msg, smd = lb.snapshots[0]
        d = first_diff(expect(snap), project(msg))
        if d:
            out.violate('loopback: field differs after real transport: %s' % field_class(d), {'where': d})
        for name, got in (('send', smd), ('poll', lb.polls[0][1])):
            mine = [kv for kv in got if kv[0] in ('authorization', 'x-api-key')]
            if sorted(mine) != sorted(md):
                out.violate('loopback: %s arrived without exactly the provider\'s metadata' % name,
                            {'expected': md, 'got': mine})
        return out

    def case_auth(self, r):
        out = Outcome()
        out.cls('auth', 'auth_' + r['kind'])
        custom = {'APP_ROOT': '/app'}
        exp = []
        env = {}
        if r['kind'] == 'empty_string':
            custom['SERVICE_AUTH_PROVIDER'] = ''
        elif r['kind'] == 'basic':
            custom['SERVICE_AUTH_PROVIDER'] = 'deep.api.auth.BasicAuthProvider'
            if r.get('via') == 'env' and r['user'] is not None and r['password'] is not None \
                    and '\x00' not in r['user'] + r['password']:
                # the credentials come from the environment, where the application put them at some point before it
                # started the agent (after `import deep`, as this process did long ago)
                out.cls('credentials_from_the_environment')
                env = {'DEEP_SERVICE_USERNAME': r['user'], 'DEEP_SERVICE_PASSWORD': r['password']}
            else:
                custom['SERVICE_USERNAME'] = r['user']
                custom['SERVICE_PASSWORD'] = r['password']
            if r['user'] is not None and r['password'] is not None:
                token = base64.b64encode((r['user'] + ':' + r['password']).encode('utf-8')).decode('utf-8')
                exp = [('authorization', 'Basic%20' + token)]
        elif r['kind'] in ('custom', 'custom_empty', 'custom_flaky'):
            md = [tuple(x) for x in r['metadata']] if r['kind'] != 'custom_empty' else []
            if r['kind'] == 'custom_flaky' and not md:
                md = [('authorization', 'tok')]
            flaky = r['kind'] == 'custom_flaky'
            mod = types.ModuleType('vf_auth_dyn')

            class Prov(AuthProvider):
                calls = 0

                def provide(self):
                    Prov.calls += 1
                    if flaky and Prov.calls == 1:
                        raise RuntimeError('token endpoint not ready')      # fails once, then works
                    return list(md)
            mod.Prov = Prov
            sys.modules['vf_auth_dyn'] = mod
            custom['SERVICE_AUTH_PROVIDER'] = 'vf_auth_dyn.Prov'
            exp = md
        out.nontrivial = bool(exp)
        old_env = {k: os.environ.get(k) for k in env}
        os.environ.update(env)
        try:
            return self._auth_requests(out, r, custom, exp)
        finally:
            for k, v in old_env.items():
                if v is None:
                    os.environ.pop(k, None)
                else:
                    os.environ[k] = v

    def _auth_requests(self, out, r, custom, exp):
        cfg = lab.make_cfg(custom)
        g = GRPCService(cfg)

        def responder(method, raw):
            if method.endswith('poll'):
                return PollResponse(ts_nanos=1, current_hash='', response_type=ResponseType.NO_CHANGE)
            return SnapshotResponse()
        channel = lab.FakeChannel(responder)
        g.channel = channel
        poll = LongPoll(cfg, g)
        th = TaskHandler()
        th._pool.shutdown(wait=False)
        th._pool = lab.InlinePool()
        ps = PushService(g, th)
        from vf.props.C09 import mk_snapshot
        try:
            if r['kind'] == 'custom_flaky':
                try:
                    poll.poll()             # the provider's first failure may fail this poll; no request may go out
                except BaseException:      # noqa
                    pass
            for _ in range(r['polls']):
                poll.poll()
            for _ in range(r['sends']):
                ps.push_snapshot(mk_snapshot())
            poll.poll()
        except BaseException as e:      # noqa
            out.violate('poll / send raised with this auth configuration: %s' % lab.exc_bucket(e), {'kind': r['kind']})
            return out
        if len(channel.of('send')) != r['sends']:
            out.violate('a send did not reach the channel with this auth configuration')
        for c in channel.calls:
            got = [tuple(x) for x in (c['metadata'] or [])]
            if got != [tuple(x) for x in exp]:
                out.violate('request without exactly the provider\'s metadata (%s)' % c['method'].rsplit('/', 1)[-1],
                            {'expected': exp, 'got': got, 'kind': r['kind']})
                break
        return out


PROP = C08()
