"""Object-graph recipes -> live Python values (friendly and hostile), fresh per build.

Recipe: {"nodes": [node, ...]} ; node = {"k": kind, ...payload...}
  scalar kinds carry "v"; containers carry "items": [node index, ...]; dict-likes carry
  "items": [[key payload, node index], ...]; objects carry "attrs": [[name, node index], ...];
  hostile kinds carry "exc": "E" | "B"  (Exception / BaseException subclass).
References may point at any node (also forward / self) -> sharing and cycles; immutable containers
(tuple, frozenset, namedtuple, exception args) can only reference earlier nodes.
"""
import collections
import dataclasses
import datetime
import decimal
import enum
import fractions
import io
import pathlib
import threading
import types
import uuid

from hypothesis import strategies as st
from vf.core import fd


class HostileError(Exception):
    pass


class HostileBase(BaseException):
    pass


def _exc(code):
    return HostileBase if code == 'B' else HostileError


class Plain:
    pass


class Slots:
    __slots__ = ('a', 'b')

    def __init__(self):
        self.a = 1
        self.b = 'two'


@dataclasses.dataclass
class Data:
    x: int = 3
    y: str = 'why'


class Color(enum.Enum):
    RED = 1
    BLUE = 2


class StrSub(str):
    pass


class IntSub(int):
    pass


class ListSub(list):
    pass


class DictSub(dict):
    pass


NT = collections.namedtuple('NT', ['p', 'q'])


class Mailbox:
    """A user collection with __len__ and a *draining* __iter__: reading it consumes it."""

    def __init__(self, items):
        self._q = collections.deque(items)

    def __len__(self):
        return len(self._q)

    def __iter__(self):
        while self._q:
            yield self._q.popleft()


class Lru(dict):
    """A cache that keeps track of which entries were used: reading an entry is a host-visible write."""

    def __init__(self, items):
        super().__init__(items)
        self.used = []

    def __getitem__(self, key):
        value = dict.__getitem__(self, key)
        self.used.append(key)
        return value

    def __repr__(self):
        return 'Lru(%d entries)' % len(self)


class SlotsHook:
    """No __dict__ (slots) and an attribute hook that keeps what it was asked for: lazily created attributes,
    access statistics. Only the special names are kept (expressions may well ask for ordinary ones)."""
    __slots__ = ('a', 'asked')

    def __init__(self):
        self.a = 1
        self.asked = []

    def __getattr__(self, name):
        if name.startswith('__'):
            self.asked.append(name)
        raise AttributeError(name)


class OneShot:
    """Iterable whose __iter__ may be called only once, and which counts len() calls as reads."""

    def __init__(self):
        self.reads = 0
        self.used = False

    def __len__(self):
        self.reads += 1
        return 3

    def __iter__(self):
        self.used = True
        return iter([1, 2, 3])


def _mk_hostile(kind, exc_code):
    exc = _exc(exc_code)

    if kind == 'badstr':
        class BadStr:
            def __init__(self):
                self.inner = 5

            def __str__(self):
                raise exc('str failed')
        return BadStr()
    if kind == 'badrepr':
        class BadRepr:
            def __repr__(self):
                raise exc('repr failed')
        return BadRepr()
    if kind == 'badlen':
        class BadLen(list):
            def __len__(self):
                raise exc('len failed')
        return BadLen([1, 2])
    if kind == 'badgetattr':
        class BadGetattr:
            def __getattr__(self, name):
                raise exc('getattr failed %s' % name)
        return BadGetattr()
    if kind == 'badgetattribute':
        class BadGetattribute:
            def __getattribute__(self, name):
                raise exc('getattribute failed %s' % name)
        return BadGetattribute()
    if kind == 'baddict':
        class BadDict:
            @property
            def __dict__(self):
                raise exc('dict failed')
        return BadDict()
    if kind == 'badclass':
        class BadClass:
            @property
            def __class__(self):
                raise exc('class failed')
        return BadClass()
    if kind == 'badhash':
        class BadHash:
            def __hash__(self):
                raise exc('hash failed')

            def __eq__(self, o):
                raise exc('eq failed')
        return BadHash()
    if kind == 'badstr_exc':
        class BadStrExc(Exception):
            def __str__(self):
                raise exc('exc str failed')
        return BadStrExc(1, 2)
    if kind == 'badkeys':
        class BadKeys(dict):
            def keys(self):
                raise exc('keys failed')
        return BadKeys(a=1)
    if kind == 'baditer':
        class BadIter(list):
            def __iter__(self):
                raise exc('iter failed')
        return BadIter([1])
    if kind == 'dictless_dunder':
        class WeirdDict:
            __dict__ = 5
        return WeirdDict()
    if kind == 'badmeta':
        # a class whose metaclass does not give away its name (type(value).__name__ raises)
        class Meta(type):
            def __getattribute__(cls, name):
                if name in ('__name__', '__qualname__'):
                    raise exc('metaclass hides %s' % name)
                return type.__getattribute__(cls, name)

        class Nameless(metaclass=Meta):
            def __init__(self):
                self.inner = 7
        return Nameless()
    if kind == 'badmeta_repr':
        # neither the value nor its class can be shown: str(value) fails, and so does repr(type(value))
        class MetaR(type):
            def __repr__(cls):
                raise exc('this class does not render')

        class Unrendered(metaclass=MetaR):
            def __init__(self):
                self.inner = 7

            def __str__(self):
                raise exc('str failed')
            __repr__ = __str__
        return Unrendered()
    if kind == 'slots_hook':
        return SlotsHook()
    raise ValueError(kind)


HSUB_BASES = {'dict': (dict, lambda: {'a': 1}), 'list': (list, lambda: [1, 2]), 'tuple': (tuple, lambda: (1, 2)),
              'set': (set, lambda: {1}), 'str': (str, lambda: 'txt'), 'int': (int, lambda: 5),
              'frozenset': (frozenset, lambda: frozenset([1])), 'exc': (ValueError, lambda: (1,)),
              'odict': (collections.OrderedDict, lambda: {'a': 1}), 'obj': (object, lambda: None)}
HSUB_DUNDERS = ['__len__', '__iter__', '__str__', '__repr__', '__getitem__', 'keys', 'items', 'values', '__bool__',
                '__contains__', '__sizeof__', '__format__', '__dir__', '__reduce__', '__getattr__']


def _mk_hsub(base, dunder, exc_code):
    exc = _exc(exc_code)
    cls, init = HSUB_BASES[base]

    def bad(self, *a, **k):
        raise exc('%s.%s failed' % (base, dunder))
    T = type('Bad_%s_%s' % (base, dunder.strip('_')), (cls,), {dunder: bad})
    arg = init()
    if base == 'obj':
        return T()
    if base == 'exc':
        return T(*arg)
    return T(arg)


HOSTILE_KINDS = ['badstr', 'badrepr', 'badlen', 'badgetattr', 'badgetattribute', 'baddict', 'badclass', 'badhash',
                 'badstr_exc', 'badkeys', 'baditer', 'dictless_dunder', 'badmeta', 'badmeta_repr', 'hsub', 'hsub', 'hsub']
# values whose str()/traversal legitimately cannot be rendered: only a placeholder is required for them
OFFENDING_KINDS = set(HOSTILE_KINDS) | {'surrogate'}

NODICT_KINDS = ['bytes', 'badbytes', 'bytearray', 'slots', 'lock', 'deque', 'datetime', 'decimal', 'fraction', 'uuid',
                'path', 'range', 'complex', 'gen', 'map', 'zip', 'dict_keys', 'range_iter', 'set_iter', 'enum',
                'builtin_func', 'method', 'memoryview', 'ellipsis', 'notimpl', 'object', 'property', 'cell',
                'stringio', 'ordereddict', 'defaultdict', 'namedtuple', 'counter', 'strsub', 'intsub', 'listsub',
                'dictsub', 'dataclass', 'func', 'lambda', 'cls', 'module', 'list_iter', 'list_reviter',
                'frame', 'traceback_obj', 'code', 'weakref', 'date', 'timedelta', 'slice', 'mappingproxy', 'mailbox',
                'oneshot', 'mailbox', 'builtin_named', 'builtin_named', 'slots_hook']
SCALAR_KINDS = ['none', 'bool', 'int', 'bigint', 'float', 'nan', 'inf', 'str', 'longstr', 'surrogate', 'nulstr',
                'astral', 'emptystr']
CONTAINER_KINDS = ['list', 'tuple', 'set', 'frozenset', 'dict', 'obj', 'exc']


def _gen3():
    yield 1
    yield 2
    yield 3


def _build_leaf(node):
    k = node['k']
    v = node.get('v')
    if k == 'none':
        return None
    if k == 'bool':
        return bool(v)
    if k == 'int':
        return int(v or 0) + 1000          # above the small-int cache so identity = one object per node
    if k == 'smallint':
        return int(v or 0)
    if k == 'bigint':
        return 10 ** 40 + int(v or 0)
    if k == 'float':
        return float(v or 0) + 0.5
    if k == 'nan':
        return float('nan')
    if k == 'inf':
        return float('-inf')
    if k == 'complex':
        return complex(1, int(v or 0))
    if k == 'str':
        return 'str-%s' % (v,)
    if k == 'emptystr':
        return ''
    if k == 'longstr':
        return ('L%s-' % (v,)) * 400
    if k == 'surrogate':
        return 'sur\ud800-%s' % (v,)
    if k == 'nulstr':
        return 'nul\x00-%s' % (v,)
    if k == 'astral':
        return 'astral\U0001F600-%s' % (v,)
    if k == 'bytes':
        return ('bytes-%s' % (v,)).encode()
    if k == 'badbytes':
        return b'\xff\xfe\x00bad' + bytes([int(v or 0) % 256])
    if k == 'bytearray':
        return bytearray(b'ba-%d' % int(v or 0))
    if k == 'slots':
        return Slots()
    if k == 'lock':
        return threading.Lock()
    if k == 'datetime':
        return datetime.datetime(2020, 1, 2, 3, 4, 5)
    if k == 'date':
        return datetime.date(2020, 1, 2)
    if k == 'timedelta':
        return datetime.timedelta(seconds=5)
    if k == 'decimal':
        return decimal.Decimal('1.50')
    if k == 'fraction':
        return fractions.Fraction(1, 3)
    if k == 'uuid':
        return uuid.UUID(int=int(v or 0) + 7)
    if k == 'path':
        return pathlib.PurePosixPath('/tmp/x%s' % (v,))
    if k == 'range':
        return range(int(v or 0) % 20)
    if k == 'gen':
        return _gen3()
    if k == 'map':
        return map(str, [1, 2, 3])
    if k == 'zip':
        return zip([1, 2], 'ab')
    if k == 'dict_keys':
        return {'k1': 1, 'k2': 2}.keys()
    if k == 'range_iter':
        return iter(range(3))
    if k == 'set_iter':
        return iter({1})
    if k == 'list_iter':
        return iter([1, 2, 3])
    if k == 'list_reviter':
        return reversed([1, 2, 3])
    if k == 'enum':
        return Color.RED if not v else Color.BLUE
    if k == 'builtin_func':
        return len
    if k == 'method':
        return 'abc'.upper
    if k == 'memoryview':
        return memoryview(b'mv')
    if k == 'ellipsis':
        return Ellipsis
    if k == 'notimpl':
        return NotImplemented
    if k == 'object':
        return object()
    if k == 'property':
        return property(lambda s: 1)
    if k == 'cell':
        x = 5
        return (lambda: x).__closure__[0]
    if k == 'stringio':
        return io.StringIO('text')
    if k == 'deque':
        return collections.deque([1, 2, 3], maxlen=5)
    if k == 'ordereddict':
        return collections.OrderedDict([('o1', 1), ('o2', 2)])
    if k == 'defaultdict':
        d = collections.defaultdict(list)
        d['dd'].append(1)
        return d
    if k == 'counter':
        return collections.Counter('aab')
    if k == 'namedtuple':
        return NT(1, 'q')
    if k == 'strsub':
        return StrSub('strsub')
    if k == 'intsub':
        return IntSub(5)
    if k == 'listsub':
        return ListSub([1, 2])
    if k == 'dictsub':
        return DictSub(a=1)
    if k == 'dataclass':
        return Data()
    if k == 'func':
        return _gen3
    if k == 'lambda':
        return lambda q: q
    if k == 'cls':
        return Plain
    if k == 'module':
        return types
    if k == 'frame':
        import sys
        return sys._getframe()
    if k == 'traceback_obj':
        try:
            raise ValueError('tb')
        except ValueError as e:
            return e.__traceback__
    if k == 'code':
        return _gen3.__code__
    if k == 'weakref':
        import weakref
        return weakref.ref(Plain)
    if k == 'slice':
        return slice(1, 2)
    if k == 'mappingproxy':
        return types.MappingProxyType({'mp': 1})
    if k == 'builtin_named':
        # a user class that merely has the *name* of a builtin container
        nm = ['list', 'set', 'tuple', 'frozenset', 'dict', 'str', 'int'][int(v or 0) % 7]
        T = type(nm, (), {'__init__': lambda self: setattr(self, 'payload', 7)})
        return T()
    if k == 'mailbox':
        return Mailbox([1, 2, 3])
    if k == 'oneshot':
        return OneShot()
    if k == 'slots_hook':
        return SlotsHook()
    if k == 'lru':
        return Lru({'a': 1, 'b': 2, 'c': 3})
    if k == 'hsub':
        return _mk_hsub(node.get('base', 'dict'), node.get('dunder', '__len__'), node.get('exc', 'E'))
    if k in HOSTILE_KINDS:
        return _mk_hostile(k, node.get('exc', 'E'))
    raise ValueError('unknown kind %r' % (k,))


def _key(payload):
    t, v = payload
    if t == 's':
        return str(v)
    if t == 'i':
        return int(v)
    if t == 'n':
        return None
    if t == 't':
        return (int(v), 'k')
    if t == 'b':
        return bytes([int(v) % 256])
    if t == 'f':
        return float(v) + 0.5
    if t == 'z':
        return frozenset([int(v)])
    if t == 'u':
        return '_K__mangled%s' % v
    return str(v)


def build(recipe):
    """-> list of live values, one per node."""
    nodes = recipe['nodes']
    n = len(nodes)
    vals = [None] * n
    # pass 1: leaves and mutable shells
    for i, node in enumerate(nodes):
        k = node['k']
        if k == 'list':
            vals[i] = []
        elif k == 'set':
            vals[i] = set()
        elif k == 'dict':
            vals[i] = {}
        elif k == 'obj':
            vals[i] = Plain()
        elif k in ('tuple', 'frozenset', 'exc'):
            vals[i] = None
        else:
            vals[i] = _build_leaf(node)
    # pass 2: immutable containers in index order (may only reference earlier nodes)
    for i, node in enumerate(nodes):
        k = node['k']
        if k == 'tuple':
            vals[i] = tuple(vals[j % i] for j in node.get('items', []) if i > 0)
        elif k == 'frozenset':
            items = []
            for j in node.get('items', []):
                if i > 0 and _hashable_node(nodes, j % i):
                    items.append(vals[j % i])
            vals[i] = frozenset(items)
        elif k == 'exc':
            args = tuple(vals[j % i] for j in node.get('items', []) if i > 0)
            cls = {'V': ValueError, 'K': KeyError, 'R': RuntimeError}.get(node.get('cls', 'V'), ValueError)
            vals[i] = cls(*args)
    # pass 3: fill mutable containers
    for i, node in enumerate(nodes):
        k = node['k']
        if k == 'list':
            vals[i].extend(vals[j % n] for j in node.get('items', []))
        elif k == 'set':
            for j in node.get('items', []):
                if _hashable_node(nodes, j % n):
                    vals[i].add(vals[j % n])
        elif k == 'dict':
            for key, j in node.get('items', []):
                vals[i][_key(key)] = vals[j % n]
        elif k == 'obj':
            for name, j in node.get('attrs', []):
                setattr(vals[i], name, vals[j % n])
    return vals


_HASHABLE = {'none', 'bool', 'int', 'smallint', 'bigint', 'float', 'inf', 'str', 'emptystr', 'longstr', 'surrogate',
             'nulstr', 'astral', 'bytes', 'badbytes', 'complex', 'enum', 'strsub', 'intsub'}


def _hashable_node(nodes, j):
    return nodes[j]['k'] in _HASHABLE


# --------------------------------------------------------------------------------------------
# strategies

_key_payload = st.tuples(st.sampled_from(['s', 's', 's', 'i', 'n', 't', 'b', 'f', 'z', 'u']), st.integers(0, 5)).map(list)
_str_key_payload = st.tuples(st.sampled_from(['s', 's', 'u']), st.integers(0, 5)).map(list)
_attr_names = st.sampled_from(['x', 'y', 'name', '_prot', '_Plain__priv', '__dunder__', 'z9', '_Plain_id', '_Plains',
                               '_id', 's'])


def node_strategy(kinds, max_items=5, str_keys_only=False, max_ref=40):
    refs = st.lists(st.integers(0, max_ref), max_size=max_items)

    def mk(k):
        if k in ('list', 'tuple', 'set', 'frozenset'):
            return fd({'k': st.just(k), 'items': refs})
        if k == 'exc':
            return fd({'k': st.just(k), 'items': st.lists(st.integers(0, max_ref), max_size=3),
                                          'cls': st.sampled_from(['V', 'K', 'R'])})
        if k == 'dict':
            kp = _str_key_payload if str_keys_only else _key_payload
            return fd({'k': st.just(k), 'items': st.lists(
                st.tuples(kp, st.integers(0, max_ref)).map(list), max_size=max_items)})
        if k == 'obj':
            return fd({'k': st.just(k), 'attrs': st.lists(
                st.tuples(_attr_names, st.integers(0, max_ref)).map(list), max_size=max_items)})
        if k == 'hsub':
            return fd({'k': st.just(k), 'exc': st.sampled_from(['E', 'E', 'B']),
                                          'base': st.sampled_from(sorted(HSUB_BASES)),
                                          'dunder': st.sampled_from(HSUB_DUNDERS)})
        if k in HOSTILE_KINDS:
            return fd({'k': st.just(k), 'exc': st.sampled_from(['E', 'E', 'B'])})
        return fd({'k': st.just(k), 'v': st.integers(0, 9)})
    return st.sampled_from(kinds).flatmap(mk)


FRIENDLY_LEAVES = ['none', 'bool', 'int', 'bigint', 'float', 'inf', 'str', 'emptystr', 'longstr', 'nulstr', 'astral']
FRIENDLY = FRIENDLY_LEAVES + ['list', 'tuple', 'set', 'frozenset', 'dict', 'obj', 'exc', 'list', 'dict', 'obj']


def value_recipes(kinds, min_nodes=1, max_nodes=12, max_items=5, str_keys_only=False):
    return st.lists(node_strategy(kinds, max_items, str_keys_only, max_ref=max_nodes * 3), min_size=min_nodes,
                    max_size=max_nodes).map(lambda nodes: {'nodes': nodes})
