"""./check entry: dispatch to a property module."""
import argparse
import importlib
import os
import sys

from vf import core


def main():
    ap = argparse.ArgumentParser()
    ap.add_argument('prop')
    ap.add_argument('--tier', default=os.environ.get('VERIF_TIER', 'quick'), choices=['quick', 'thorough'])
    ap.add_argument('--replay')
    ap.add_argument('--examples', type=int)
    ap.add_argument('--shard', type=int)
    ap.add_argument('--out')
    ap.add_argument('--jobs', type=int, default=int(os.environ.get('VERIF_JOBS', '0')) or None)
    a = ap.parse_args()
    seed = int(os.environ.get('VERIF_SEED', '1') or '1')

    def go():
        from vf import lab                      # imports deep from the working tree, asserts location
        lab.assert_repo()
        mod = importlib.import_module('vf.props.%s' % a.prop)
        prop = mod.PROP
        return core.main_run(prop, a.tier, seed, examples=a.examples, shard=a.shard, out=a.out, jobs=a.jobs,
                             replay=a.replay)

    rc = core.guarded_main(go)
    sys.stdout.flush()
    sys.stderr.flush()
    os._exit(rc)        # no lingering daemon thread may keep the process or change the code


if __name__ == '__main__':
    main()
