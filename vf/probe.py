"""The interposed trace function: records the event stream, takes the oracle's own reading of the paused
frame, then delegates to the agent using CPython's local-trace protocol."""
import os
import sys
import threading


class Event:
    __slots__ = ('idx', 'thread', 'event', 'path', 'base', 'line', 'func', 'inv', 'reading', 'arg', 'depth')

    def __init__(self, idx, thread, event, path, line, func, inv, arg, depth):
        self.idx = idx
        self.thread = thread
        self.event = event
        self.path = path
        self.base = os.path.basename(path)
        self.line = line
        self.func = func
        self.inv = inv
        self.reading = None
        self.arg = arg
        self.depth = depth


class Interposer:
    """trace function = Interposer(agent_trace).trace"""

    def __init__(self, agent, interesting=None, reader=None, watch_files=None, keep_arg=False):
        self.agent = agent
        self.events = []
        self.interesting = interesting        # callable(Event, frame) -> bool : take a reading
        self.reader = reader                  # callable(frame, Event) -> reading
        self.watch_files = watch_files        # only record events of these basenames (None = all)
        self.keep_arg = keep_arg
        self._local = {}                      # id(frame) -> agent's local trace function
        self._stacks = {}                     # thread name -> list of invocation ids
        self._inv = 0
        self.agent_raised = []                # (thread, exception bucket)
        self.dead_threads = set()
        self.before_delegate = None           # hook(Event, frame)
        self.after_delegate = None

    def trace(self, frame, event, arg):
        tname = threading.current_thread().name
        path = frame.f_code.co_filename
        stack = self._stacks.setdefault(tname, [])
        if event == 'call':
            self._inv += 1
            stack.append((self._inv, id(frame)))
            inv = self._inv
        else:
            inv = stack[-1][0] if stack else 0
        rec = self.watch_files is None or os.path.basename(path) in self.watch_files
        ev = None
        if rec:
            ev = Event(len(self.events), tname, event, path, frame.f_lineno, frame.f_code.co_name, inv,
                       arg if self.keep_arg else None, len(stack))
            self.events.append(ev)
            if self.interesting is not None and self.interesting(ev, frame):
                ev.reading = self.reader(frame, ev)
            if self.before_delegate is not None:
                self.before_delegate(ev, frame)
        # ---- delegate with CPython's protocol ------------------------------------------------
        try:
            if event == 'call':
                r = self.agent(frame, event, arg)
                self._local[id(frame)] = r
            else:
                cb = self._local.get(id(frame))
                if cb is not None:
                    r = cb(frame, event, arg)
                    if r is not None:
                        self._local[id(frame)] = r
        except BaseException as e:      # noqa - what CPython does: tracing off for the thread, exception propagates
            from vf.lab import exc_bucket
            self.agent_raised.append((tname, exc_bucket(e)))
            self.dead_threads.add(tname)
            if event == 'return' and stack:
                stack.pop()
                self._local.pop(id(frame), None)
            raise
        if ev is not None and self.after_delegate is not None:
            self.after_delegate(ev, frame)
        if event == 'return':
            if stack:
                stack.pop()
            self._local.pop(id(frame), None)
        return self.trace
