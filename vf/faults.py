"""Call-site inventory + nth-call fault injector for the agent's own code.

Every function / method / property getter defined in the anchored deep modules is wrapped with a counter.
A dry run records which wrappers are reached how often; a fault point is (qualified name, call index);
when armed, the wrapper raises InjectedFault at exactly that call.  Nothing is tied to line numbers, so newly
added agent code is covered automatically.
"""
import importlib
import sys
import types


class InjectedFault(Exception):
    pass


MODULES = [
    'deep.processor.trigger_handler', 'deep.processor.context.trigger_context',
    'deep.processor.context.action_context', 'deep.processor.context.callback_context',
    'deep.processor.context.snapshot_action', 'deep.processor.context.log_action',
    'deep.processor.context.metric_action', 'deep.processor.context.span_action',
    'deep.processor.context.action_results',
    'deep.processor.frame_collector', 'deep.processor.variable_set_processor', 'deep.processor.variable_processor',
    'deep.processor.bfs', 'deep.api.tracepoint.trigger', 'deep.api.tracepoint.tracepoint_config',
    'deep.api.tracepoint.eventsnapshot', 'deep.thread_local', 'deep.utils', 'deep.api.attributes',
    'deep.config.config_service',
]
EXCLUDE = {'deep.processor.trigger_handler:TriggerHandler.trace_call',     # the entry itself: a fault must be inside
           'deep.processor.trigger_handler:TriggerHandler.__init__',
           'deep.processor.trigger_handler:TriggerHandler.start',
           'deep.processor.trigger_handler:TriggerHandler.shutdown',
           'deep.processor.trigger_handler:TriggerHandler.new_config',
           }


class Injector:
    def __init__(self):
        self.armed = False
        self.counts = {}
        self.plan = {}
        self.fired = []
        self.inventory = []
        self.installed = False

    def _wrap(self, name, orig):
        inj = self

        def wrapper(*a, **k):
            if inj.armed:
                c = inj.counts.get(name, 0) + 1
                inj.counts[name] = c
                if (name, c) in inj.plan:
                    inj.fired.append((name, c))
                    raise InjectedFault('%s call %d' % (name, c))
            return orig(*a, **k)
        wrapper.__name__ = getattr(orig, '__name__', 'w')
        wrapper.__qualname__ = getattr(orig, '__qualname__', 'w')
        wrapper.__doc__ = getattr(orig, '__doc__', None)
        wrapper.__wrapped_by_vf__ = orig
        wrapper.__module__ = getattr(orig, '__module__', None)
        return wrapper

    def install(self):
        if self.installed:
            return
        self.installed = True
        replaced = {}     # id(original function) -> (original, wrapper)
        for mname in MODULES:
            mod = importlib.import_module(mname)
            for attr, val in list(vars(mod).items()):
                if isinstance(val, types.FunctionType) and val.__module__ == mname:
                    q = '%s:%s' % (mname, attr)
                    if q in EXCLUDE:
                        continue
                    w = self._wrap(q, val)
                    setattr(mod, attr, w)
                    replaced[id(val)] = (val, w)
                    self.inventory.append(q)
                elif isinstance(val, type) and val.__module__ == mname:
                    for cattr, cval in list(vars(val).items()):
                        q = '%s:%s.%s' % (mname, val.__name__, cattr)
                        if q in EXCLUDE:
                            continue
                        if cattr in ('__init_subclass__', '__class_getitem__', '__subclasshook__', '__new__',
                                     '__str__', '__repr__', '__eq__', '__hash__', '__missing__'):
                            continue
                        if isinstance(cval, types.FunctionType):
                            setattr(val, cattr, self._wrap(q, cval))
                            self.inventory.append(q)
                        elif isinstance(cval, staticmethod):
                            setattr(val, cattr, staticmethod(self._wrap(q, cval.__func__)))
                            self.inventory.append(q)
                        elif isinstance(cval, classmethod):
                            setattr(val, cattr, classmethod(self._wrap(q, cval.__func__)))
                            self.inventory.append(q)
                        elif isinstance(cval, property) and cval.fget is not None:
                            try:
                                setattr(val, cattr, property(self._wrap(q, cval.fget), cval.fset, cval.fdel, cval.__doc__))
                                self.inventory.append(q)
                            except (AttributeError, TypeError):
                                pass
        # names imported with `from x import f` into other deep modules
        for mname, mod in list(sys.modules.items()):
            if not mname.startswith('deep') or mod is None:
                continue
            for attr, val in list(vars(mod).items()):
                if isinstance(val, types.FunctionType) and id(val) in replaced and replaced[id(val)][0] is val:
                    setattr(mod, attr, replaced[id(val)][1])

    def dry(self):
        self.plan = {}
        self.counts = {}
        self.fired = []
        self.armed = True

    def arm(self, plan):
        self.plan = dict(plan)
        self.counts = {}
        self.fired = []
        self.armed = True

    def disarm(self):
        self.armed = False


INJECTOR = Injector()
