"""Coverage-guided amplification: drive a property's Hypothesis strategy from atheris (libFuzzer) bytes.

    python -B -m vf.fuzz <Cxx> --runs N --seed S --out result.json

The property's run_case (with its full oracle) is the fuzz target, reached through
`test.hypothesis.fuzz_one_input`, with the repository's `deep` package instrumented for coverage.  A violation
does not crash the fuzzer: its recipe is recorded (first per signature) and the campaign goes on, so one
shallow finding cannot hide what lies behind it.  libFuzzer's seed pins a campaign only approximately; the
recorded recipe is the reproducible unit.
"""
import argparse
import importlib
import json
import os
import shutil
import subprocess
import sys
import tempfile

ROOT = os.path.dirname(os.path.dirname(os.path.abspath(__file__)))
DEPS = os.path.join(ROOT, '.deps')


def ensure_atheris():
    if DEPS not in sys.path:
        sys.path.insert(0, DEPS)
    try:
        import atheris  # noqa
        return True
    except ImportError:
        pass
    r = subprocess.run([sys.executable, '-m', 'pip', 'install', '-q', '--no-index', '--find-links',
                        '/opt/veriftools/wheels', '--target', DEPS, 'atheris'], capture_output=True, text=True)
    try:
        importlib.invalidate_caches()
        import atheris  # noqa
        return True
    except ImportError:
        sys.stderr.write(r.stderr[-500:])
        return False


def main():
    ap = argparse.ArgumentParser()
    ap.add_argument('prop')
    ap.add_argument('--runs', type=int, default=20000)
    ap.add_argument('--seed', type=int, default=1)
    ap.add_argument('--out', required=True)
    ap.add_argument('--max-len', type=int, default=4096)
    a = ap.parse_args()
    if not ensure_atheris():
        json.dump({'error': 'atheris not installable'}, open(a.out, 'w'))
        os._exit(3)
    import atheris
    with atheris.instrument_imports(include=['deep']):
        from vf import lab, core
        lab.assert_repo()
        mod = importlib.import_module('vf.props.%s' % a.prop)
    prop = mod.PROP
    from hypothesis import given, settings, HealthCheck
    runner = core.Runner(prop, 'thorough', a.seed, quiet=True)
    found = {}

    @settings(database=None, deadline=None, suppress_health_check=list(HealthCheck))
    @given(prop.strategy('thorough'))
    def test(recipe):
        outcome, new = runner._run_one(recipe)
        for v in new:
            if v.signature not in found:
                found[v.signature] = (recipe, v)

    corpus = tempfile.mkdtemp(prefix='vffuzz_%s_' % a.prop, dir='/dev/shm' if os.path.isdir('/dev/shm') else None)
    argv = [sys.argv[0], '-runs=%d' % a.runs, '-seed=%d' % (a.seed or 1), '-max_len=%d' % a.max_len,
            '-print_final_stats=0', '-verbosity=0', '-len_control=0', corpus]
    # a few long pseudo-random seeds (deterministic in the seed): Hypothesis rejects buffers that run out of bytes,
    # and libFuzzer only lengthens its inputs once it has seen coverage
    import hashlib
    for i in range(8):
        blob = b''.join(hashlib.sha256(b'%d-%d-%d' % (a.seed, i, j)).digest() for j in range(64))
        with open(os.path.join(corpus, 'seed%d' % i), 'wb') as f:
            f.write(blob)

    def finish():
        viol = []
        for sig, (recipe, v) in found.items():
            path = runner._save_violation(recipe, v)
            viol.append({'signature': sig, 'replay': path})
        d = {'stats': runner.stats.as_dict(), 'violations': viol, 'fuzz_executions': runner.stats.evaluations}
        with open(a.out, 'w') as f:
            json.dump(d, f)
        shutil.rmtree(corpus, ignore_errors=True)

    import atexit  # atheris exits through os._exit: write the result from the target when the budget is used up
    count = [0]
    real = test.hypothesis.fuzz_one_input

    def target(data):
        count[0] += 1
        try:
            real(data)
        except BaseException as e:      # noqa - a harness error must not look like a crash input
            if type(e).__name__ not in ('UnsatisfiedAssumption', 'StopTest', 'Frozen'):
                found.setdefault('HARNESS:%s' % type(e).__name__, (None, core.Violation('HARNESS:%s' % e)))
        if count[0] >= a.runs:
            finish()
            sys.stdout.flush()
            os._exit(0)
    atheris.Setup(argv, target)
    atheris.Fuzz()
    finish()


if __name__ == '__main__':
    main()
