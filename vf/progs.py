"""Host programs as recipes: generate (Hypothesis), render to source with a line map, compile, run.

Recipe (JSON-able):
  {"files": [{"path": "/app/pkg/mod_a.py", "src": true}, ...],
   "funcs": [{"name": "f0", "file": 0, "kind": "func|gen|method", "nparams": 2, "body": [stmt, ...]}, ...],
   "values": <value recipe or null>}
funcs[0] is the entry (always kind func).  Functions only call functions with a higher index (plus bounded
self recursion on the first parameter `n`), so every program terminates.

Statements:
  ["set", name, expr]            ["hold", name, vi]            (name = V[vi], a generated live value)
  ["call", name|null, fi, [expr...]]   ["rec", name, [expr...]]
  ["loop", var, n, [body]]       ["if", expr, [body], [orelse]]
  ["try", [body], exc, [handler], [final]]      ["raise", exc, expr]
  ["ret", expr]  ["yield", expr]  ["mark", expr]  ["tick", ms]
  ["drain", name, fi, [expr...], k, close]      (create generator fi, take k items, optionally close)
  ["spawn", fi, [expr...]]                      (run fi in a new thread, start+join)
  ["pass"]
"""
import linecache
import os
import sys
import threading

from hypothesis import strategies as st

from vf import lab

EXC_NAMES = ['ValueError', 'KeyError', 'RuntimeError', 'CustomExc', 'CustomBase']


class CustomExc(Exception):
    pass


class CustomBase(BaseException):
    pass


# --------------------------------------------------------------------------------------------
# rendering

class Rendered:
    def __init__(self):
        self.sources = {}        # path -> source text
        self.stmts = []          # list of dict(sid, file, func, line, kind, executed_possible)
        self.func_lines = {}     # (file index, func name) -> def line
        self.func_info = []      # per func: dict(name, file, kind, path, qual)
        self.scopes = {}         # sid -> list of int-valued names in scope, list of all names


def render(recipe):
    r = Rendered()
    files = recipe['files']
    funcs = recipe['funcs']
    per_file_lines = {i: [] for i in range(len(files))}

    def emit(fi, text):
        per_file_lines[fi].append(text)
        return len(per_file_lines[fi])

    for fidx, f in enumerate(files):
        emit(fidx, 'import threading')
        emit(fidx, 'import random')
        emit(fidx, 'import warnings')
        emit(fidx, 'G_INT = %d' % (fidx + 40))
        emit(fidx, 'G_LIST = [1, 2, 3]')
        emit(fidx, 'G_STR = "glob%d"' % fidx)
        emit(fidx, 'def g_helper(x):')
        emit(fidx, '    return x')
        emit(fidx, 'class KBase:')
        emit(fidx, '    def __init__(self, seed):')
        emit(fidx, '        self.base_seed = seed')
        emit(fidx, '    def describe(self):')
        emit(fidx, '        return "base-%s" % self.base_seed')

    sid_counter = [0]

    def call_text(fi, args):
        fn = funcs[fi]
        mod = 'M%d' % fn['file']
        if fn['kind'] == 'method':
            return '%s.K_%s(%s).%s(%s)' % (mod, fn['name'], args[0] if args else '0', fn['name'], ', '.join(args))
        return '%s.%s(%s)' % (mod, fn['name'], ', '.join(args))

    def render_body(fidx, fname, body, indent, self_fi):
        pad = ' ' * indent
        if not body:
            body = [['pass']]
        for stmt in body:
            kind = stmt[0]
            sid = sid_counter[0]
            sid_counter[0] += 1

            def rec(line, kind=kind, sid=sid):
                r.stmts.append({'sid': sid, 'file': fidx, 'func': fname, 'line': line, 'kind': kind})

            if kind == 'set':
                rec(emit(fidx, '%s%s = %s' % (pad, stmt[1], stmt[2])))
            elif kind == 'hold':
                rec(emit(fidx, '%s%s = V[%d]' % (pad, stmt[1], stmt[2])))
            elif kind == 'call':
                txt = call_text(stmt[2], stmt[3])
                if len(stmt) > 4 and stmt[4] == 2:
                    # the call is made from a closure: between caller and callee sits a '<lambda>' frame whose `self`
                    # (or `n`) is a free variable taken from the enclosing function
                    txt = '(lambda: [%s, %s][1])()' % ('self' if funcs[self_fi]['kind'] == 'method' else 'n', txt)
                elif len(stmt) > 4 and stmt[4]:
                    # the call is made from code run through eval() without namespaces of its own: between caller and
                    # callee sits a '<string>' frame that shares the caller's globals and locals
                    txt = 'eval(%r)' % txt
                rec(emit(fidx, '%s%s%s' % (pad, (stmt[1] + ' = ') if stmt[1] else '', txt)))
            elif kind == 'rec':
                rec(emit(fidx, '%sif n > 0:' % pad))
                emit(fidx, '%s    %s = %s' % (pad, stmt[1], call_text(self_fi, ['n - 1'] + stmt[2])))
                emit(fidx, '%selse:' % pad)
                emit(fidx, '%s    %s = -1' % (pad, stmt[1]))
            elif kind == 'loop':
                rec(emit(fidx, '%sfor %s in range(%d):' % (pad, stmt[1], stmt[2])))
                render_body(fidx, fname, stmt[3], indent + 4, self_fi)
            elif kind == 'if':
                rec(emit(fidx, '%sif %s:' % (pad, stmt[1])))
                render_body(fidx, fname, stmt[2], indent + 4, self_fi)
                if stmt[3]:
                    emit(fidx, '%selse:' % pad)
                    render_body(fidx, fname, stmt[3], indent + 4, self_fi)
            elif kind == 'try':
                rec(emit(fidx, '%stry:' % pad))
                render_body(fidx, fname, stmt[1], indent + 4, self_fi)
                emit(fidx, '%sexcept %s as err:' % (pad, stmt[2]))
                emit(fidx, '%s    KEEP(err)' % pad)      # the program keeps the exception objects it caught
                render_body(fidx, fname, stmt[3] or [['mark', 'type(err).__name__']], indent + 4, self_fi)
                if stmt[4]:
                    emit(fidx, '%sfinally:' % pad)
                    render_body(fidx, fname, stmt[4], indent + 4, self_fi)
            elif kind == 'raise':
                rec(emit(fidx, '%sraise %s(%s)' % (pad, stmt[1], stmt[2])))
            elif kind == 'ret':
                rec(emit(fidx, '%sreturn %s' % (pad, stmt[1])))
            elif kind == 'yield':
                rec(emit(fidx, '%syield %s' % (pad, stmt[1])))
            elif kind == 'mark':
                rec(emit(fidx, '%smark(%s)' % (pad, stmt[1])))
            elif kind == 'tick':
                rec(emit(fidx, '%stick(%d)' % (pad, stmt[1])))
            elif kind == 'drain':
                name, fi, args, k, close = stmt[1:6]
                rec(emit(fidx, '%s%s = %s' % (pad, name, call_text(fi, args))))
                emit(fidx, '%sfor _i in range(%d):' % (pad, k))
                emit(fidx, '%s    mark(next(%s, "<end>"))' % (pad, name))
                if close:
                    emit(fidx, '%s%s.close()' % (pad, name))
            elif kind == 'spawn':
                fi, args = stmt[1], stmt[2]
                fn = funcs[fi]
                # start + join happen inside the harness helper with the parent's tracing suspended: while the child runs
                # the parent delivers no trace events, so at most one program thread produces events at any time
                rec(emit(fidx, '%s_t = SPAWN(lambda: %s, "T%d_%%d" %% NEXT())' % (pad, call_text(fi, args), sid)))
            elif kind == 'warn':
                # the program issues a warning; with the "default" action it is shown once per location
                rec(emit(fidx, '%swarnings.warn("w%d", UserWarning)' % (pad, stmt[1])))
            elif kind == 'dyn':
                # code run through exec / eval: frames of a '<string>' file whose globals are a bare dict (no __name__,
                # no __file__) or the module's own
                txt = ['exec("q0 = 1\\nq0 = q0 + n", {"n": n})', '_ev = eval("n * 2 + 1", {"n": n})',
                       'exec("q1 = n", globals(), {"n": n})', '_ev = eval("[k for k in range(n)]", {"n": n, "range": range})'
                       ][stmt[1] % 4]
                rec(emit(fidx, '%s%s' % (pad, txt)))
            elif kind == 'fin':
                # a local holding an object with a finaliser: it is finalised when the last reference goes away
                rec(emit(fidx, '%s%s = FIN(%d)' % (pad, stmt[1], stmt[2])))
            elif kind == 'pass':
                rec(emit(fidx, '%spass' % pad))
            else:
                raise ValueError('unknown stmt %r' % (stmt,))

    for fi, fn in enumerate(funcs):
        fidx = fn['file']
        params = ['n'] + ['p%d' % i for i in range(1, fn['nparams'])]
        if fn['kind'] == 'method':
            emit(fidx, 'class K_%s(KBase):' % fn['name'])
            emit(fidx, '    def __init__(self, seed):')
            emit(fidx, '        super().__init__(seed)')
            emit(fidx, '        self.seed = seed')
            emit(fidx, '        self._prot = [seed, seed]')
            emit(fidx, '        self.__priv = "s%d" % seed')
            if fn.get('falsy'):
                # an instance that is false in a boolean context (an empty container-like object)
                emit(fidx, '    def __len__(self):')
                emit(fidx, '        return 0')
            line = emit(fidx, '    def %s(self, %s):' % (fn['name'], ', '.join(params)))
            r.func_lines[(fidx, fn['name'])] = line
            emit(fidx, '        sup = super().describe()')       # zero-arg super(): the frame carries a __class__ cell
            render_body(fidx, fn['name'], fn['body'], 8, fi)
            emit(fidx, '        mark(super().describe())')
            qual = 'K_%s.%s' % (fn['name'], fn['name'])
        else:
            line = emit(fidx, 'def %s(%s):' % (fn['name'], ', '.join(params)))
            r.func_lines[(fidx, fn['name'])] = line
            render_body(fidx, fn['name'], fn['body'], 4, fi)
            if fn['kind'] == 'gen':
                emit(fidx, '    if False:')
                emit(fidx, '        yield None')
            qual = fn['name']
        r.func_info.append({'name': fn['name'], 'file': fidx, 'kind': fn['kind'], 'path': files[fidx]['path'],
                            'qual': qual, 'def_line': line})
    entry = funcs[0]
    if recipe.get('pre_err'):
        # the program already holds an exception object it caught earlier (a kept last error)
        emit(0, 'try:')
        emit(0, '    raise CustomExc(7)')
        emit(0, 'except CustomExc as _e0:')
        emit(0, '    KEEP(_e0)')
    emit(0, 'random.seed(20260102)')        # the host uses the global random generator, from a seed of its own
    emit(0, 'RESULT = %s(%s)' % (entry['name'], ', '.join(['2'] + ['1'] * (entry['nparams'] - 1))))
    emit(0, 'mark(random.randint(0, 10 ** 9))')
    for fidx, f in enumerate(files):
        r.sources[f['path']] = '\n'.join(per_file_lines[fidx]) + '\n'
    return r


# --------------------------------------------------------------------------------------------
# observation canonicaliser (never prints addresses, never calls hostile dunders)

_SCALARS = (int, float, str, bool, bytes, type(None), complex)


def canon_obs(v, depth=0):
    t = type(v)
    if t in _SCALARS:
        if t is float and v != v:
            return ['float', 'nan']
        return [t.__name__, v if t is not bytes else v.hex()]
    if depth > 6:
        return [t.__name__, '...']
    if t in (list, tuple):
        return [t.__name__, [canon_obs(x, depth + 1) for x in v]]
    if t in (set, frozenset):
        return [t.__name__, sorted((canon_obs(x, depth + 1) for x in v), key=repr)]
    if t is dict:
        return [t.__name__, sorted(([canon_obs(k, depth + 1), canon_obs(x, depth + 1)] for k, x in v.items()),
                                   key=repr)]
    if issubclass(t, BaseException) and type.__getattribute__(t, '__module__') in ('builtins', __name__):
        return ['exc', t.__name__, [canon_obs(a, depth + 1) for a in v.args]]
    return ['opaque', type.__getattribute__(t, '__name__')]


# --------------------------------------------------------------------------------------------
# running

class RunResult:
    def __init__(self):
        self.log = []
        self.result = None
        self.exc = None
        self.thread_results = {}
        self.trace_after = {}     # thread label -> sys.gettrace() at the end of that thread
        self.agent_leak = None    # an exception that escaped from the agent into program code
        self.deadlock = None

    def observation(self):
        return {'result': self.result, 'exc': self.exc, 'log': self.log, 'threads': self.thread_results}


def run_program(recipe, rendered, tracer=None, values=None, register_sources=True, clock=None, timeout=60):
    """Compile + exec the program in a fresh thread with `tracer` installed via threading.settrace."""
    files = recipe['files']
    res = RunResult()
    codes = []
    for fidx, f in enumerate(files):
        src = rendered.sources[f['path']]
        codes.append(compile(src, f['path'], 'exec'))
        if register_sources and f.get('src', True):
            lab.register_source(f['path'], src)
    lock = threading.Lock()
    live_log = res.log          # frozen when the program ends: what runs later (finalisers) is not part of its output

    def mark(x):
        live_log.append(canon_obs(x))

    def tick(ms):
        lab.CLOCK.advance_ms(ms)

    counter = [0]

    def NEXT():
        counter[0] += 1
        return counter[0]

    def RUN(fn, label):
        try:
            v = fn()
            res.thread_results[label] = ['ok', canon_obs(v)]
        except BaseException as e:      # noqa
            res.thread_results[label] = ['exc', describe_exc(e, res)]
        res.trace_after[label] = sys.gettrace()

    def SPAWN(fn, name):
        t = threading.Thread(target=RUN, args=(fn, name), name=name)
        old_trace = sys.gettrace()
        sys.settrace(None)
        try:
            t.start()
            t.join()
        finally:
            sys.settrace(old_trace)
        return name

    class Fin:
        def __init__(self, tag):
            self.tag = tag

        def __del__(self):
            live_log.append(['finalised', self.tag])

    errs = []

    def KEEP(e):
        errs.append(e)
        return e

    mods = []
    import types
    for fidx, f in enumerate(files):
        m = types.ModuleType('hostmod%d' % fidx)
        m.__file__ = f['path']
        mods.append(m)
    for m in mods:
        for j, mm in enumerate(mods):
            setattr(m, 'M%d' % j, mm)
        m.mark = mark
        m.tick = tick
        m.NEXT = NEXT
        m.SPAWN = SPAWN
        m.RUN = RUN
        m.V = values if values is not None else []
        m.KEEP = KEEP
        m.FIN = Fin
        m.ERRS = errs
        m.CustomExc = CustomExc
        m.CustomBase = CustomBase

    entry = recipe['funcs'][0]

    def runner():
        # installed here, not through threading.settrace: the bootstrap of this harness-owned thread must not be
        # traced (an agent failure there would block the harness in Thread.start); threads the *program* spawns
        # are traced from their bootstrap on, exactly as application threads are
        import warnings
        old_show, old_filters = warnings.showwarning, list(warnings.filters)

        def show(message, category, filename, lineno, file=None, line=None):
            live_log.append(['warning-shown', category.__name__, str(message), os.path.basename(str(filename)), lineno])
        warnings.showwarning = show
        warnings.simplefilter('default', UserWarning)
        undo = apply_ambient(recipe.get('ambient') or [])
        dummies = {id(t) for t in threading.enumerate() if isinstance(t, threading._DummyThread)}
        threading.settrace(tracer)
        sys.settrace(tracer)
        try:
            try:
                # file 0 last: its last statement calls the entry function from module level
                for m, code in list(zip(mods, codes))[1:] + list(zip(mods, codes))[:1]:
                    exec(code, m.__dict__)
                res.result = ['ok', canon_obs(mods[0].RESULT)]
            except BaseException as e:      # noqa
                res.exc = describe_exc(e, res)
            res.trace_after['main'] = sys.gettrace()
            sys.settrace(None)              # from here on harness code: reading the state back is not traced
            # interpreter-wide and thread-wide settings the program can read back, and the exception objects it kept
            res.log.append(['ambient', ambient_state()])
            # what threading.enumerate() / active_count() show the program beyond its own live threads: placeholder
            # thread objects that somebody created for threads of the program that have already ended
            res.log.append(['placeholder-threads-left', len([t for t in threading.enumerate() if isinstance(
                t, threading._DummyThread) and id(t) not in dummies])])
            res.log.append(['kept-exceptions', [exc_shape(e) for e in errs]])
        finally:
            for u in reversed(undo):
                u()
            warnings.showwarning = old_show
            warnings.filters[:] = old_filters
            warnings._filters_mutated()
        res.log = list(live_log)
        # the module namespaces are part of the program's final data
        res.log.append(['module-dunders', [sorted(k for k in m.__dict__ if k.startswith('__')) for m in mods]])
        sys.settrace(None)              # the thread's own teardown is harness code

    old = threading.gettrace()
    t = threading.Thread(target=runner, name='main-prog')
    try:
        t.start()
        t.join(3)
        if t.is_alive():
            # a definite deadlock shape: the program is blocked in Thread.start() waiting for a thread that already
            # died while bootstrapping (CPython sets the started event from inside the traced bootstrap)
            fr = sys._current_frames().get(t.ident)
            blocked = None
            f = fr
            while f is not None:
                if f.f_code.co_name == 'start' and f.f_code.co_filename.endswith('threading.py'):
                    blocked = f.f_locals.get('self')
                f = f.f_back
            if blocked is not None and not blocked.is_alive():
                res.deadlock = 'Thread.start() blocked forever: the new thread died in its traced bootstrap'
                blocked._started.set()          # release the program so the case can be cleaned up
                t.join(10)
            else:
                t.join(timeout)
            if t.is_alive():
                raise lab.HarnessError('program thread did not finish')
    finally:
        threading.settrace(old)
    return res


AMBIENT = ['gc_off', 'gc_threshold', 'reclimit', 'switchinterval', 'decimal_prec', 'warn_filter', 'excepthook']


def apply_ambient(names):
    """Settings the host program made for itself before its code runs; -> undo callables."""
    import decimal
    import gc
    import warnings
    undo = []
    for nm in names:
        if nm == 'gc_off':
            was = gc.isenabled()
            gc.disable()
            undo.append(lambda was=was: gc.enable() if was else gc.disable())
        elif nm == 'gc_threshold':
            was = gc.get_threshold()
            gc.set_threshold(701, 11, 9)
            undo.append(lambda was=was: gc.set_threshold(*was))
        elif nm == 'reclimit':
            was = sys.getrecursionlimit()
            sys.setrecursionlimit(was + 17)
            undo.append(lambda was=was: sys.setrecursionlimit(was))
        elif nm == 'switchinterval':
            was = sys.getswitchinterval()
            sys.setswitchinterval(0.0071)
            undo.append(lambda was=was: sys.setswitchinterval(was))
        elif nm == 'decimal_prec':
            ctx = decimal.getcontext()
            was = ctx.prec
            ctx.prec = 13
            undo.append(lambda ctx=ctx, was=was: setattr(ctx, 'prec', was))
        elif nm == 'warn_filter':
            was = list(warnings.filters)
            warnings.simplefilter('error', category=ResourceWarning)
            undo.append(lambda was=was: warnings.filters.__setitem__(slice(None), was))
        elif nm == 'excepthook':
            was = threading.excepthook

            def host_hook(args):
                pass
            threading.excepthook = host_hook
            undo.append(lambda was=was: setattr(threading, 'excepthook', was))
    return undo


def ambient_state():
    import decimal
    import gc
    import warnings
    return [['gc', gc.isenabled(), list(gc.get_threshold())], ['reclimit', sys.getrecursionlimit()],
            ['switchinterval', sys.getswitchinterval()], ['decimal', decimal.getcontext().prec],
            ['warnings', [repr(f[:3]) for f in warnings.filters]], ['cwd', os.getcwd()],
            ['environ', sorted(os.environ.items())],
            ['hooks', getattr(sys.excepthook, '__name__', '?'), getattr(threading.excepthook, '__name__', '?'),
             getattr(sys.unraisablehook, '__name__', '?'), getattr(sys.displayhook, '__name__', '?')],
            ['sys.path', list(sys.path)], ['stdio', type(sys.stdout).__name__, type(sys.stderr).__name__]]


def exc_shape(e):
    """An exception object as the program can inspect it later: where it travelled and what it is chained to."""
    tb = e.__traceback__
    path = []
    while tb is not None:
        path.append([os.path.basename(tb.tb_frame.f_code.co_filename), tb.tb_frame.f_code.co_name, tb.tb_lineno])
        tb = tb.tb_next
    return [type(e).__name__, path, type(e.__context__).__name__, type(e.__cause__).__name__,
            e.__suppress_context__, sorted(k for k in getattr(e, '__dict__', {})),
            list(getattr(e, '__notes__', []))]


def describe_exc(e, res):
    """Exception as the program sees it; an exception whose innermost frame is agent code is a leak."""
    tb = e.__traceback__
    inner = None
    while tb is not None:
        inner = tb.tb_frame.f_code.co_filename
        tb = tb.tb_next
    if inner and (os.sep + 'deep' + os.sep) in inner and (os.sep + 'vf' + os.sep) not in inner:
        res.agent_leak = lab.exc_bucket(e)
    return [type(e).__name__, [canon_obs(a) for a in e.args]]


# --------------------------------------------------------------------------------------------
# generation

_names = ['a', 'b', 'c', 'd', 'e']


@st.composite
def program_recipes(draw, max_funcs=4, max_stmts=6, allow_threads=True, allow_gens=True, allow_raise=True,
                    allow_methods=True, n_values=0, two_files=True, max_depth=2, hold_bias=1):
    nfiles = draw(st.integers(1, 2)) if two_files else 1
    layout = draw(st.sampled_from(['same_base', 'same_base', 'other', 'other', 'suffix', 'prefix', 'recur'])) if nfiles == 2 else None
    if nfiles == 1:
        files = [{'path': '/app/pkg/mod_a.py', 'src': True}]
    elif layout == 'same_base':
        files = [{'path': '/app/pkg/mod_a.py', 'src': True}, {'path': '/app/other/mod_a.py', 'src': True}]
    elif layout == 'suffix':
        # one file name ends with the other
        files = [{'path': '/app/pkg/mod_a.py', 'src': True}, {'path': '/app/pkg/xmod_a.py', 'src': True}]
    elif layout == 'recur':
        # the application root (and the package prefix) occur a second time further down the path
        files = [{'path': '/app/pkg/mod_a.py', 'src': True}, {'path': '/app/pkg/sub/app/pkg/mod_c.py', 'src': True}]
    elif layout == 'prefix':
        # one file name starts with the other
        files = [{'path': '/app/pkg/mod_a.py', 'src': True}, {'path': '/app/pkg/mod_a.pyx.py', 'src': True}]
    else:
        files = [{'path': '/app/pkg/mod_a.py', 'src': True}, {'path': '/app/lib/mod_b.py', 'src': True}]
    nfuncs = draw(st.integers(1, max_funcs))
    kinds = ['func']
    for i in range(1, nfuncs):
        opts = ['func', 'func']
        if allow_gens:
            opts.append('gen')
        if allow_methods:
            opts.append('method')
        kinds.append(draw(st.sampled_from(opts)))
    name_pool = ['f0', 'f1', 'f2', 'f3', 'f4', 'f5']
    funcs = []
    for i in range(nfuncs):
        fidx = 0 if i == 0 else draw(st.integers(0, nfiles - 1))
        # same-named functions in two files on purpose sometimes
        name = name_pool[i]
        if i > 1 and nfiles == 2 and draw(st.integers(0, 3)) == 0:
            prev = [f for f in funcs[1:] if f['file'] != fidx and f['kind'] == kinds[i]]
            if prev and not any(f['name'] == prev[0]['name'] and f['file'] == fidx for f in funcs):
                name = prev[0]['name']
        funcs.append({'name': name, 'file': fidx, 'kind': kinds[i], 'nparams': draw(st.integers(1, 3)),
                      'body': [], 'falsy': kinds[i] == 'method' and draw(st.booleans())})

    def int_expr(scope_int):
        opts = [st.integers(-3, 9).map(str), st.just('random.randint(0, 99)')]
        if scope_int:
            nm = st.sampled_from(scope_int)
            opts += [nm, st.tuples(nm, st.sampled_from(['+', '*', '-']), st.integers(1, 4)).map(
                lambda t: '%s %s %d' % t), st.tuples(nm, nm).map(lambda t: '%s + %s' % t)]
        return draw(st.one_of(*opts))

    def any_expr(scope_int, scope_all):
        k = draw(st.integers(0, 6))
        if k <= 2:
            return int_expr(scope_int), 'int'
        if k == 3:
            return repr(draw(st.sampled_from(['s', 'text', 'x' * 30, '']))), 'any'
        if k == 4:
            return '[%s, %s]' % (int_expr(scope_int), int_expr(scope_int)), 'any'
        if k == 5:
            return "{'k': %s, 'n': [%s]}" % (int_expr(scope_int), int_expr(scope_int)), 'any'
        return "(%s, 'tup')" % int_expr(scope_int), 'any'

    def gen_body(fi, scope_int, scope_all, depth, budget, in_loop=False):
        fn = funcs[fi]
        body = []
        n = draw(st.integers(1, max(1, budget)))
        for _ in range(n):
            callees = [j for j in range(fi + 1, nfuncs)]
            opts = ['set', 'set', 'mark']
            if callees:
                opts += ['call', 'call']
            if depth < max_depth:
                opts += ['loop', 'if']
                if allow_raise:
                    opts += ['try']
            if allow_raise and depth > 0:
                opts += ['raise']
            if fn['kind'] == 'gen':
                opts += ['yield', 'yield']
            if depth == 0 and fi != 0 or depth > 0:
                pass
            if fn['nparams'] >= 1 and depth == 0 and fn['kind'] == 'func' and fi != 0:
                opts += ['rec']
            if n_values:
                opts += ['hold'] * hold_bias
            if allow_threads and callees and depth == 0 and fi == 0:
                opts += ['spawn']
            opts += ['tick', 'dyn', 'warn']
            # a finalisable local is bound once per invocation and never rebound: CPython keeps the f_locals snapshot
            # of a frame whose locals were read (by any trace function) until the frame exits, so *when* a rebound
            # value dies inside the invocation is not something an agent built on sys.settrace can preserve
            # (for the same reason at most one per function: the order in which two of them die at frame exit is not
            # preserved either - the one the snapshot dict still holds goes last)
            if depth == 0 and not in_loop and 'z1' not in scope_all:
                opts += ['fin']
            kind = draw(st.sampled_from(opts))
            if kind == 'set':
                name = draw(st.sampled_from(_names))
                expr, k = any_expr(scope_int, scope_all)
                body.append(['set', name, expr])
                if k == 'int':
                    if name not in scope_int:
                        scope_int = scope_int + [name]
                elif name in scope_int:
                    scope_int = [x for x in scope_int if x != name]
                if name not in scope_all:
                    scope_all = scope_all + [name]
            elif kind == 'hold':
                name = draw(st.sampled_from(['h1', 'h2', 'h3']))
                body.append(['hold', name, draw(st.integers(0, n_values - 1))])
                if name not in scope_all:
                    scope_all = scope_all + [name]
            elif kind == 'warn':
                body.append(['warn', draw(st.integers(0, 2))])
            elif kind == 'dyn':
                body.append(['dyn', draw(st.integers(0, 3))])
            elif kind == 'fin':
                name = 'z1'
                body.append(['fin', name, draw(st.integers(0, 9))])
                if name not in scope_all:
                    scope_all = scope_all + [name]
            elif kind == 'mark':
                body.append(['mark', any_expr(scope_int, scope_all)[0]])
            elif kind == 'tick':
                body.append(['tick', draw(st.sampled_from([0, 1, 50, 1000]))])
            elif kind == 'call':
                j = draw(st.sampled_from(callees))
                callee = funcs[j]
                args = [str(draw(st.integers(0, 2)))] + [int_expr(scope_int) for _ in range(callee['nparams'] - 1)]
                if callee['kind'] == 'gen':
                    name = draw(st.sampled_from(['g1', 'g2']))
                    body.append(['drain', name, j, args, draw(st.integers(0, 3)), draw(st.booleans())])
                    if name not in scope_all:
                        scope_all = scope_all + [name]
                else:
                    name = draw(st.sampled_from(['r1', 'r2', None]))
                    body.append(['call', name, j, args, draw(st.sampled_from([False, False, True, 2]))])
                    if name and name not in scope_all:
                        scope_all = scope_all + [name]
                    if name and name in scope_int:
                        scope_int = [x for x in scope_int if x != name]
            elif kind == 'spawn':
                j = draw(st.sampled_from([c for c in callees]))
                callee = funcs[j]
                args = [str(draw(st.integers(0, 2)))] + [int_expr(scope_int) for _ in range(callee['nparams'] - 1)]
                if callee['kind'] == 'gen':
                    continue
                body.append(['spawn', j, args])
            elif kind == 'rec':
                args = [int_expr(scope_int) for _ in range(fn['nparams'] - 1)]
                body.append(['rec', 'rr', args])
                if 'rr' not in scope_all:
                    scope_all = scope_all + ['rr']
                if 'rr' not in scope_int:
                    scope_int = scope_int + ['rr']
            elif kind == 'loop':
                var = draw(st.sampled_from(['i', 'j']))
                inner = gen_body(fi, scope_int + [var], scope_all + [var], depth + 1, 3, True)
                body.append(['loop', var, draw(st.integers(0, 3)), inner])
            elif kind == 'if':
                cond = '%s %s %s' % (int_expr(scope_int), draw(st.sampled_from(['<', '>', '==', '!='])),
                                     int_expr(scope_int))
                body.append(['if', cond, gen_body(fi, scope_int, scope_all, depth + 1, 3),
                             gen_body(fi, scope_int, scope_all, depth + 1, 2) if draw(st.booleans()) else []])
            elif kind == 'try':
                exc = draw(st.sampled_from(EXC_NAMES + ['Exception', 'BaseException']))
                inner = gen_body(fi, scope_int, scope_all, depth + 1, 3)
                if draw(st.booleans()):
                    inner.append(['raise', draw(st.sampled_from(EXC_NAMES)), int_expr(scope_int)])
                handler = gen_body(fi, scope_int, scope_all, depth + 1, 2) if draw(st.booleans()) else []
                final = gen_body(fi, scope_int, scope_all, depth + 1, 2) if draw(st.integers(0, 2)) == 0 else []
                body.append(['try', inner, exc, handler, final])
            elif kind == 'raise':
                body.append(['raise', draw(st.sampled_from(EXC_NAMES)), int_expr(scope_int)])
            elif kind == 'yield':
                body.append(['yield', int_expr(scope_int)])
        if depth == 0:
            if fn['kind'] != 'gen' or draw(st.booleans()):
                if draw(st.integers(0, 4)) > 0:
                    body.append(['ret', any_expr(scope_int, scope_all)[0] if fn['kind'] != 'gen'
                                 else int_expr(scope_int)])
        return body

    for fi in range(nfuncs):
        params = ['n'] + ['p%d' % i for i in range(1, funcs[fi]['nparams'])]
        scope_all = list(params) + (['self'] if funcs[fi]['kind'] == 'method' else [])
        funcs[fi]['body'] = gen_body(fi, list(params), scope_all, 0, max_stmts)
    ambient = draw(st.lists(st.sampled_from(AMBIENT), max_size=2, unique=True))
    return {'files': files, 'funcs': funcs, 'ambient': ambient, 'pre_err': draw(st.booleans())}


def scope_table(recipe, rendered):
    """For each statement: the names certainly bound when that line is reached (conservative)."""
    # computed by a simple walk: params + straight-line top-level assignments before the statement
    table = {}
    sid = [0]

    def walk(fn, body, bound_int, bound_all, norm=True):
        if norm and not body:
            body = [['pass']]
        for stmt in body:
            kind = stmt[0]
            my = sid[0]
            sid[0] += 1
            table[my] = (list(bound_int), list(bound_all))
            if kind == 'set':
                name, expr = stmt[1], stmt[2]
                is_int = _is_int_expr(expr)
                bound_all = bound_all + [name] if name not in bound_all else bound_all
                if is_int and name not in bound_int:
                    bound_int = bound_int + [name]
                if not is_int and name in bound_int:
                    bound_int = [x for x in bound_int if x != name]
            elif kind in ('hold', 'fin'):
                if stmt[1] not in bound_all:
                    bound_all = bound_all + [stmt[1]]
            elif kind == 'call':
                if stmt[1]:
                    if stmt[1] not in bound_all:
                        bound_all = bound_all + [stmt[1]]
                    bound_int = [x for x in bound_int if x != stmt[1]]
            elif kind == 'rec':
                if 'rr' not in bound_all:
                    bound_all = bound_all + ['rr']
                if 'rr' not in bound_int:
                    bound_int = bound_int + ['rr']
            elif kind == 'drain':
                if stmt[1] not in bound_all:
                    bound_all = bound_all + [stmt[1]]
            elif kind == 'loop':
                walk(fn, stmt[3], bound_int + [stmt[1]], bound_all + [stmt[1]])
            elif kind == 'if':
                walk(fn, stmt[2], bound_int, bound_all)
                walk(fn, stmt[3], bound_int, bound_all, norm=False)
            elif kind == 'try':
                walk(fn, stmt[1], bound_int, bound_all)
                walk(fn, stmt[3] or [['mark', '0']], bound_int, bound_all + ['err'])
                walk(fn, stmt[4], bound_int, bound_all, norm=False)
        return bound_int, bound_all

    for fn in recipe['funcs']:
        params = ['n'] + ['p%d' % i for i in range(1, fn['nparams'])]
        walk(fn, fn['body'], list(params), list(params) + (['self'] if fn['kind'] == 'method' else []))
    return table


def _is_int_expr(expr):
    return not (expr.startswith(("'", '"', '[', '{', '(')))


@st.composite
def chain_programs(draw, n_values=6, max_depth=5):
    """f0 -> f1 -> ... -> fk (plain functions and methods, possibly in two files); every function holds generated
    values and simple locals before calling the next; returns (recipe, sid of a statement in the deepest function)."""
    depth = draw(st.integers(1, max_depth))
    two = draw(st.booleans())
    files = [{'path': '/app/pkg/mod_a.py', 'src': True}]
    if two:
        files.append({'path': draw(st.sampled_from(['/app/lib/mod_b.py', '/app/other/mod_a.py', '/app/pkg/xmod_a.py',
                                                      '/app/pkg/sub/app/pkg/mod_c.py'])),
                      'src': True})
    funcs = []
    sid = 0
    target = 0
    for i in range(depth + 1):
        kind = 'func' if i == 0 else draw(st.sampled_from(['func', 'method', 'func']))
        body = []
        nh = draw(st.integers(0, 3))
        for j in range(nh):
            body.append(['hold', draw(st.sampled_from(['h1', 'h2', 'h3'])), draw(st.integers(0, n_values - 1))])
        for j in range(draw(st.integers(0, 2))):
            body.append(['set', draw(st.sampled_from(_names + ['G_INT', 'g_helper', 'G_LIST'])),
                         draw(st.sampled_from(["[n, 'x']", "{'k': n}", 'n + 1', "'txt'", "(n, [n])"]))])
        if i < depth:
            if draw(st.integers(0, 3)) == 0:
                # hop through freshly started (and joined) threads: several sequential threads reach the deeper code
                for _ in range(draw(st.integers(2, 3))):
                    body.append(['spawn', i + 1, ['1']])
                body.append(['ret', 'n'])
            else:
                body.append(['call', 'r1', i + 1, ['1'], draw(st.sampled_from([False, False, True, 2, 2]))])
                body.append(['ret', 'r1'])
        else:
            body.append(['mark', 'n'])
            target = sid + len(body) - 1
            body.append(['ret', 'n + 1'])
        sid += len(body)
        funcs.append({'name': 'f%d' % i, 'file': draw(st.integers(0, len(files) - 1)) if i else 0, 'kind': kind,
                      'nparams': 1, 'body': body, 'falsy': kind == 'method' and draw(st.booleans())})
    return {'files': files, 'funcs': funcs}, target
