"""Reference readers written from the property statements (not from the implementation)."""
import re

LISTLIKE = (list, tuple, set, frozenset)
SCALARS = (int, float, str, bool, type(None))
_digits = re.compile(r'\d+')

_NOHIT = object()


class Limits:
    def __init__(self, max_string_length=1024, max_collection_size=10, max_var_depth=5, max_variables=1000):
        self.max_string_length = max_string_length
        self.max_collection_size = max_collection_size
        self.max_var_depth = max_var_depth
        self.max_variables = max_variables


def is_container(v):
    return type(v) is dict or type(v) in LISTLIKE


def is_friendly(v):
    """Types for which the statement fixes the rendering completely."""
    t = type(v)
    if t in SCALARS or t is dict or t in LISTLIKE:
        return True
    if issubclass(t, Exception) and t.__module__ == 'builtins':
        return True
    tn = type.__getattribute__(t, '__name__')
    return tn in ('Plain',) or tn.startswith('K_')


def children_of(v):
    """Children by the statement: list of (accepted names set, child value); None = unspecified."""
    t = type(v)
    if t in SCALARS:
        return []
    if t is dict:
        return [({k if isinstance(k, str) else str(k), k}, c) for k, c in v.items()]
    if t in (list, tuple):
        return [({str(i)}, c) for i, c in enumerate(v)]
    if t in (set, frozenset):
        return 'unordered'
    if issubclass(t, Exception) and t.__module__ == 'builtins':
        return [({str(i)}, c) for i, c in enumerate(v.args)]
    d = getattr(v, '__dict__', None)
    if isinstance(d, dict):
        out = []
        # a private name (__x written inside class K) is stored as _K__x and may be shown either way; a name that merely
        # starts like that (_K_id, _Ks) is nobody's private name and is shown as it is
        prefix = '_' + t.__name__.lstrip('_')
        for k, c in d.items():
            names = {k}
            if isinstance(k, str) and k.startswith(prefix + '__') and not k.endswith('__'):
                names.add(k[len(prefix):])
            out.append((names, c))
        return out
    return None


def text_ok(v, text, truncated, limits):
    """Does `text` render value v as the statement says (element count for containers, str() otherwise)?"""
    if is_container(v):
        return _digits.findall(text) == [str(len(v))], 'container text must carry exactly the element count'
    try:
        full = str(v)
    except BaseException:      # noqa
        return True, 'unrenderable'
    exp = full[:limits.max_string_length]
    exp_trunc = len(full) > limits.max_string_length
    if text != exp:
        return False, 'text differs from str(value)'
    if bool(truncated) != exp_trunc:
        return False, 'truncated flag wrong'
    return True, ''


class Mismatch(Exception):
    def __init__(self, kind, path, detail=None):
        super().__init__(kind)
        self.kind = kind
        self.path = path
        self.detail = detail


def compare_var(var_lookup, vid, value, limits, path, depth, budget_hit=False, seen=None):
    """Compare the snapshot's entry `vid` (and below) with live `value`.  depth: 1 for a frame local.

    Raises Mismatch.  Children are compared as a name-keyed set; for list-likes longer than the
    collection limit the first `limit` elements are required; nothing is required below max depth or
    once the variable budget was hit (those are C05's subject) - but what *is* reported must be true.
    """
    if seen is None:
        seen = {}
    key = (vid, id(value))
    if key in seen:
        return
    seen[key] = True
    var = var_lookup.get(vid)
    if var is None:
        raise Mismatch('dangling-variable-id', path, {'vid': vid})
    tname = type.__getattribute__(type(value), '__name__')
    if var.type != tname:
        raise Mismatch('wrong-type', path, {'got': var.type, 'expected': tname})
    ok, why = text_ok(value, var.value, var.truncated, limits)
    if not ok:
        raise Mismatch('wrong-text', path, {'got': var.value[:80], 'why': why, 'type': tname})
    if not is_friendly(value):
        return
    kids = children_of(value)
    got = list(var.children)
    if kids is None:
        return
    if kids == 'unordered':
        elems = list(value)
        if len(got) > min(len(elems), limits.max_collection_size):
            raise Mismatch('too-many-children', path, {'got': len(got), 'len': len(elems)})
        if not budget_hit and depth < limits.max_var_depth and \
                len(got) != min(len(elems), limits.max_collection_size):
            raise Mismatch('missing-children', path, {'got': len(got), 'len': len(elems)})
        # each reported child must be a true reading of some distinct element
        pool = list(elems)
        for c in got:
            hit = _NOHIT
            for e in pool:
                try:
                    compare_var(var_lookup, c.vid, e, limits, path + ['{%s}' % c.name], depth + 1, True, dict(seen))
                    hit = e
                    break
                except Mismatch:
                    continue
            if hit is _NOHIT:
                raise Mismatch('set-child-not-an-element', path + ['{%s}' % c.name])
            pool = [x for x in pool if x is not hit] + [x for x in pool if x is hit][1:]
        return
    expected = kids
    if type(value) in (list, tuple) or issubclass(type(value), Exception):
        expected = kids[:limits.max_collection_size]
    match_children(got, expected, path, budget_hit or depth >= limits.max_var_depth,
                   lambda c, child, sn: compare_var(var_lookup, c.vid, child, limits, path + [str(c.name)], depth + 1,
                                                    budget_hit, sn), seen)


def match_children(got, expected, path, missing_ok, compare_child, seen):
    """Pair the reported children with the expected (accepted names, value) entries.  Names need not be unique: two
    dict keys with the same text (1 and '1') are two children of that name, each a true reading of one of the entries."""
    pool = list(got)
    accepted = set()
    for names, child in expected:
        accepted |= set(names)
        cands = [c for c in pool if c.name in names]
        if not cands:
            if missing_ok:
                continue
            raise Mismatch('missing-child', path + [sorted(map(str, names))[0]])
        if len(cands) == 1:
            compare_child(cands[0], child, seen)
            pool.remove(cands[0])
            continue
        last = None
        for c in cands:
            try:
                compare_child(c, child, dict(seen) if isinstance(seen, dict) else set(seen))
                pool.remove(c)
                last = None
                break
            except Mismatch as m:
                last = m
        if last is not None:
            raise last
    if pool:
        c = pool[0]
        raise Mismatch('duplicate-child-name' if c.name in accepted else 'invented-child', path + [str(c.name)])


def app_frame_reference(filename, includes, excludes, app_root):
    """C19's classifier from the statement: app frame <=> (under include or app root) and under no exclude."""
    for p in excludes:
        if filename.startswith(p):
            return False, p
    for p in includes:
        if filename.startswith(p):
            return True, p
    if app_root is not None and filename.startswith(app_root):
        return True, app_root
    return False, None
