#!/bin/bash
# usage: tools/replays_from_rev.sh <Cxx> <git rev of /repo before the fix> [examples]
# runs the check against a scratch worktree of that revision and keeps the shrunk violations as replays/<Cxx>/fixed-*.json
set -e
P=$1; REV=$2; N=${3:-150}
WT=/tmp/vfrev_$P
git -C /repo worktree remove --force $WT 2>/dev/null || true
git -C /repo worktree add --detach $WT $REV -q
cd "$(dirname "$0")/.."
rm -f out/violations/$P-*
VERIF_REPO=$WT VERIF_EVIDENCE_DIR=/tmp/vfrev_ev_$P ./check $P --examples $N | grep signature || true
git -C /repo worktree remove --force $WT
rm -rf /tmp/vfrev_ev_$P
/venv/bin/python tools/keep_replays.py $P
