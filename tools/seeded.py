#!/usr/bin/env python3
"""Seeded changes written by independent sub-agents (given only a property's text).

  tools/seeded.py import <outdir> <Cxx>         copy mutN.diff/demoN.py/notesN.md into seeded/<Cxx>-sN/
  tools/seeded.py verify [ids...] [--props C01,C02] [--jobs N]
        for each seeded change: scratch worktree of /repo HEAD under /tmp; demo passes before, patch applies,
        demo fails after, repository unit tests still pass; then every listed check is run against the patched
        tree (VERIF_REPO) and the result is written into meta.json.  Worktrees are removed afterwards.
"""
import argparse, glob, json, os, shutil, subprocess, sys, time
from concurrent.futures import ThreadPoolExecutor

ROOT = os.path.dirname(os.path.dirname(os.path.abspath(__file__)))
SEEDED = os.path.join(ROOT, 'seeded')
TESTS = ['-m', 'pytest', '-q', '-p', 'no:cacheprovider', 'tests/unit_tests', '-x',
         '--ignore=tests/unit_tests/api/plugin/metrics/test_otel_metrics.py']


def sh(cmd, **kw):
    return subprocess.run(cmd, capture_output=True, text=True, **kw)


def do_import(outdir, pid, tag='s'):
    for diff in sorted(glob.glob(os.path.join(outdir, 'mut*.diff'))):
        n = os.path.basename(diff)[3:-5]
        d = os.path.join(SEEDED, '%s-%s%s' % (pid, tag, n))
        os.makedirs(d, exist_ok=True)
        shutil.copy(diff, os.path.join(d, 'patch.diff'))
        demo = os.path.join(outdir, 'demo%s.py' % n)
        if os.path.exists(demo):
            # keep the author's file name: some demos locate their own code by basename
            shutil.copy(demo, os.path.join(d, os.path.basename(demo)))
            if os.path.exists(os.path.join(d, 'demo.py')):
                os.unlink(os.path.join(d, 'demo.py'))
        notes = os.path.join(outdir, 'notes%s.md' % n)
        meta_p = os.path.join(d, 'meta.json')
        meta = json.load(open(meta_p)) if os.path.exists(meta_p) else {}
        meta.update({'id': '%s-%s%s' % (pid, tag, n), 'property': pid, 'author': 'independent sub-agent (property text only)',
                     'needs_to_manifest': open(notes).read() if os.path.exists(notes) else ''})
        meta['demo_file'] = os.path.basename(demo)
        meta.setdefault('props', [pid])
        json.dump(meta, open(meta_p, 'w'), indent=1)
        print('imported', d)


def verify_one(d, props, skip_tests):
    sid = os.path.basename(d)
    meta_p = os.path.join(d, 'meta.json')
    meta = json.load(open(meta_p))
    wt = '/tmp/vfseed_%s' % sid
    sh(['git', '-C', '/repo', 'worktree', 'remove', '--force', wt])
    shutil.rmtree(wt, ignore_errors=True)
    r = sh(['git', '-C', '/repo', 'worktree', 'add', '--detach', wt, 'HEAD'])
    ran = {}
    try:
        env = dict(os.environ, PYTHONPATH=os.path.join(wt, 'src'), PYTHONDONTWRITEBYTECODE='1')
        demo = os.path.join(d, meta.get('demo_file', 'demo.py'))
        if os.path.exists(demo):
            r = sh(['/venv/bin/python', demo], env=env, cwd=wt, timeout=300)
            ran['demo_clean_rc'] = r.returncode
        r = sh(['git', '-C', wt, 'apply', os.path.join(d, 'patch.diff')])
        if r.returncode != 0:
            # written against an earlier commit of /repo (before later fix: commits touched the same file): 3-way merge
            r = sh(['git', '-C', wt, 'apply', '--3way', os.path.join(d, 'patch.diff')])
            ran['applied_with_3way'] = r.returncode == 0
        ran['applies'] = r.returncode == 0
        if not ran['applies']:
            ran['apply_err'] = r.stderr[-300:]
        else:
            if os.path.exists(demo):
                r = sh(['/venv/bin/python', demo], env=env, cwd=wt, timeout=300)
                ran['demo_patched_rc'] = r.returncode
            if not skip_tests:
                r = sh(['/venv/bin/python'] + TESTS, env=env, cwd=wt, timeout=900)
                ran['unit_tests'] = r.stdout.strip().splitlines()[-1] if r.stdout.strip() else r.stderr[-200:]
                ran['unit_tests_rc'] = r.returncode
            res = {}
            for pid in props or meta.get('props', [meta['property']]):
                cenv = dict(os.environ, VERIF_REPO=wt, VERIF_EVIDENCE_DIR='/tmp/vfseed_ev_%s' % sid,
                            VERIF_SEED=os.environ.get('VERIF_SEED', '1'))
                t0 = time.time()
                r = sh([os.path.join(ROOT, 'check'), pid, '--tier', 'quick'], env=cenv, cwd=ROOT, timeout=3000)
                sigs = [l.strip()[11:] for l in r.stdout.splitlines() if l.strip().startswith('signature:')]
                res[pid] = {'rc': r.returncode, 'wall_s': round(time.time() - t0, 1), 'signatures': sigs[:4]}
                if r.returncode == 2:
                    res[pid]['tail'] = (r.stdout + r.stderr)[-300:]
            ran['checks'] = res
            ran['caught_by'] = sorted(p for p, v in res.items() if v['rc'] == 1)
    finally:
        sh(['git', '-C', '/repo', 'worktree', 'remove', '--force', wt])
        shutil.rmtree(wt, ignore_errors=True)
        shutil.rmtree('/tmp/vfseed_ev_%s' % sid, ignore_errors=True)
    meta.setdefault('what_was_run', {}).update(ran)
    meta['repo_head'] = sh(['git', '-C', '/repo', 'rev-parse', '--short', 'HEAD']).stdout.strip()
    json.dump(meta, open(meta_p, 'w'), indent=1)
    return sid, ran


def main():
    ap = argparse.ArgumentParser()
    ap.add_argument('cmd')
    ap.add_argument('args', nargs='*')
    ap.add_argument('--props')
    ap.add_argument('--jobs', type=int, default=8)
    ap.add_argument('--skip-tests', action='store_true')
    a = ap.parse_args()
    if a.cmd == 'import':
        do_import(a.args[0], a.args[1], a.args[2] if len(a.args) > 2 else 's')
        return
    dirs = sorted(glob.glob(os.path.join(SEEDED, '*')))
    if a.args:
        dirs = [d for d in dirs if any(os.path.basename(d).startswith(x) for x in a.args)]
    props = a.props.split(',') if a.props else None
    with ThreadPoolExecutor(a.jobs) as ex:
        for sid, ran in ex.map(lambda d: verify_one(d, props, a.skip_tests), dirs):
            ok = ran.get('demo_clean_rc') == 0 and ran.get('demo_patched_rc') == 1 and ran.get('unit_tests_rc', 0) == 0
            print('%-10s valid=%s caught_by=%s  %s' % (sid, ok, ran.get('caught_by'), json.dumps(
                {k: v for k, v in ran.items() if k != 'checks'})[:200]))
            for p, v in (ran.get('checks') or {}).items():
                print('     %s rc=%s %ss %s' % (p, v['rc'], v['wall_s'], v['signatures'][:2]))
            sys.stdout.flush()


if __name__ == '__main__':
    main()
