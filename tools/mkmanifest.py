#!/usr/bin/env python3
"""Regenerate MANIFEST.json from the table below (keeps it valid by construction)."""
import json
import os
import subprocess

ROOT = os.path.dirname(os.path.dirname(os.path.abspath(__file__)))
BASE = ("cd /repo && /venv/bin/python -m pytest -ra -q -p no:cacheprovider --timeout=900 "
        "--continue-on-collection-errors")
TRUST = ("Trusted base: CPython 3.12 trace-event semantics, Hypothesis 6.168, the oracle/model code under vf/ "
         "(written from the property statement, not from the implementation). Fake edges: virtual clock "
         "(time_ns rebound), recording plugins, recording push service / fake gRPC channel. ")

# id -> (level, technique, text, note)  ; only properties with a built check appear here
CHECKS = {}
NOT_YET = {}


def check(pid, level, technique, text, note):
    CHECKS[pid] = (level, technique, text, note)


exec(open(os.path.join(ROOT, 'tools', 'manifest_table.py')).read())

props = [json.loads(l) for l in open(os.path.join(ROOT, 'properties.jsonl'))]
checks = []
na = []
for p in props:
    pid = p['id']
    if pid in CHECKS:
        level, technique, text, note = CHECKS[pid]
        checks.append({
            'property_id': pid,
            'quick_cmd': './check %s --tier quick' % pid,
            'thorough_cmd': './check %s --tier thorough' % pid,
            'evidence_file': 'evidence/%s.json' % pid,
            'replay_cmd_template': './check %s --replay {path}' % pid,
            'engine': 'vf',
            'level_claimed': {'category': level, 'text': text, 'design_ref': 'DESIGN.md section 3, %s' % pid},
            'level_note': TRUST + note,
            'technique': technique,
        })
    else:
        na.append({'property_id': pid, 'reason': NOT_YET.get(pid, 'check not built yet in this session (designed in DESIGN.md section 3); not claimed until it is registered')})

hooks_commits = []
man = {
    'version': 1,
    'setup_cmd': '(/venv/bin/python -c "import hypothesis" 2>/dev/null || /venv/bin/pip install --no-index --find-links /opt/veriftools/wheels hypothesis) && (test -d .deps/atheris || /venv/bin/pip install -q --no-index --find-links /opt/veriftools/wheels --target .deps atheris || true)',
    'hooks': {'guard': 'DEEP_VERIF', 'enable': 'no source hooks are needed: every edge (clock, executor, channel, plugins) is replaced from outside; the guard name is reserved',
              'baseline_off_cmd': BASE, 'source_commits': hooks_commits, 'add_only': True},
    'engines': [{'name': 'vf', 'path': 'vf/', 'serves_properties': sorted(CHECKS),
                 'kind_free_text': 'Hypothesis-driven property-based testing harness (generated programs, object graphs, histories, schedules, fault placements) against reference models / differential oracles; complete enumeration for finite tables; atheris (libFuzzer) coverage-guided amplification of the same strategies and oracles in the thorough tier (vf/fuzz.py)'}],
    'checks': checks,
    'not_applicable': na,
    'notes': 'Entry point ./check <Cxx> [--tier quick|thorough] [--replay file]; honours VERIF_SEED, VERIF_TIER, VERIF_JOBS, VERIF_REPO. Exit 0 held / 1 VIOLATION / 2 harness error or inconclusive. Known findings: known_findings.json. Sensitivity results (hand mutants and independent changes): DESIGN.md section 10, tools/mutants.py and seeded/.',
}
with open(os.path.join(ROOT, 'MANIFEST.json'), 'w') as f:
    json.dump(man, f, indent=1)
print('checks:', len(checks), 'not_applicable:', len(na))
