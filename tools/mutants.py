"""Hand-written sensitivity mutants (DESIGN.md section 4). Each compiles and passes the repository test-suite
(spot-checked), and must be caught by the listed checks within their quick budget."""
MUTANTS = [
 dict(id='C05-dfs', file='src/deep/processor/bfs/__init__.py', old='pop = queue.pop(0)', new='pop = queue.pop()', props=['C05']),
 dict(id='C05-count-ge', file='src/deep/processor/variable_set_processor.py', old='if self.__var_cache.size > self.__config.max_variables:', new='if self.__var_cache.size > self.__config.max_variables + 3:', props=['C05']),
 dict(id='C05-trunc-flag', file='src/deep/processor/variable_processor.py', old='return string[:max_length], len(string) > max_length', new='return string[:max_length], False', props=['C05']),
 dict(id='C05-depth-off', file='src/deep/processor/variable_processor.py', old='if frame_depth + 1 >= var_collector.max_var_depth:', new='if frame_depth + 1 >= var_collector.max_var_depth + 2:', props=['C05']),
 dict(id='C05-coll-cap', file='src/deep/processor/variable_processor.py', old='if total >= var_collector.max_collection_size:', new='if total > var_collector.max_collection_size:', props=['C05']),
 dict(id='C06-dict-again', file='src/deep/processor/variable_processor.py', old='            value_dict = value.__dict__\n        except BaseException:', new='            value_dict = value.__dict__\n        except AttributeError:', props=['C06']),
 dict(id='C06-tuple-as-obj', file='src/deep/processor/variable_processor.py', old="    'list',\n    'tuple',\n]", new="    'list',\n]", props=['C06', 'C02']),
 dict(id='C06-shared-table', file='src/deep/processor/context/snapshot_action.py', old='collector.collect({}, self.var_cache)', new='collector.collect(self.trigger_context.vars, self.var_cache)', props=['C06', 'C07']),
 dict(id='C06-str-guard', file='src/deep/processor/variable_processor.py', old="            return str(var_value)\n        except BaseException:", new="            return str(var_value)\n        except ValueError:", props=['C06']),
 dict(id='C13-by-location', file='src/deep/config/tracepoint_config.py', old='            if cfg is config:', new='            if cfg.id == config.id:', props=['C13']),
 dict(id='C13-remove-all', file='src/deep/config/tracepoint_config.py', old="                del self._custom[idx]\n", new="                self._custom = [c for c in self._custom if c.id != config.id]\n", props=['C13']),
 dict(id='C03-ignore-event', file='src/deep/api/tracepoint/trigger.py', old='if event == "line" and file == self.path and line == self.line:', new='if file == self.path and line == self.line:', props=['C03']),
 dict(id='C03-line-ge', file='src/deep/api/tracepoint/trigger.py', old='if event == "line" and file == self.path and line == self.line:', new='if event == "line" and file == self.path and line >= self.line:', props=['C03']),
 dict(id='C03-first-trigger-only', file='src/deep/processor/trigger_handler.py', old='                actions += trigger.actions\n', new='                actions += trigger.actions\n                break\n', props=['C03']),
 dict(id='C03-merge-overwrite', file='src/deep/grpc/__init__.py', old='all_triggers[location_id].merge_actions(trigger.actions)', new='all_triggers[location_id] = trigger', props=['C03', 'C11']),
 dict(id='C03-func-on-return', file='src/deep/api/tracepoint/trigger.py', old='if event == "call" and function_name == self.__function_name:', new='if event in ("call", "return") and function_name == self.__function_name:', props=['C03']),
]
