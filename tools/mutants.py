"""Hand-written sensitivity mutants (DESIGN.md section 4). Each compiles and passes the repository test-suite
(spot-checked), and must be caught by the listed checks within their quick budget."""
MUTANTS = [
 dict(id='C05-dfs', file='src/deep/processor/bfs/__init__.py', old='pop = queue.pop(0)', new='pop = queue.pop()', props=['C05']),
 dict(id='C05-count-ge', file='src/deep/processor/variable_set_processor.py', old='if self.__var_cache.size > self.__config.max_variables:', new='if self.__var_cache.size > self.__config.max_variables + 3:', props=['C05']),
 dict(id='C05-trunc-flag', file='src/deep/processor/variable_processor.py', old='return string[:max_length], len(string) > max_length', new='return string[:max_length], False', props=['C05']),
 dict(id='C05-depth-off', file='src/deep/processor/variable_processor.py', old='if frame_depth + 1 >= var_collector.max_var_depth:', new='if frame_depth + 1 >= var_collector.max_var_depth + 2:', props=['C05']),
 dict(id='C05-coll-cap', file='src/deep/processor/variable_processor.py', old='if total >= var_collector.max_collection_size:', new='if total > var_collector.max_collection_size:', props=['C05']),
 dict(id='C06-dict-again', file='src/deep/processor/variable_processor.py', old='            value_dict = value.__dict__\n        except BaseException:', new='            value_dict = value.__dict__\n        except AttributeError:', props=['C06']),
 dict(id='C06-tuple-as-obj', file='src/deep/processor/variable_processor.py', old="    'list',\n    'tuple',\n]", new="    'list',\n]", props=['C06', 'C02']),
 dict(id='C06-shared-table', file='src/deep/processor/context/snapshot_action.py', old='collector.collect({}, self.var_cache)', new='collector.collect(self.trigger_context.vars, self.var_cache)', props=['C06', 'C07']),
 dict(id='C06-str-guard', file='src/deep/processor/variable_processor.py', old="            return str(var_value)\n        except BaseException:", new="            return str(var_value)\n        except ValueError:", props=['C06']),
 dict(id='C13-by-location', file='src/deep/config/tracepoint_config.py', old='            if cfg is config:', new='            if cfg.id == config.id:', props=['C13']),
 dict(id='C13-remove-all', file='src/deep/config/tracepoint_config.py', old="                del self._custom[idx]\n", new="                self._custom = [c for c in self._custom if c.id != config.id]\n", props=['C13']),
 dict(id='C03-ignore-event', file='src/deep/api/tracepoint/trigger.py', old='if event == "line" and file == self.path and line == self.line:', new='if file == self.path and line == self.line:', props=['C03']),
 dict(id='C03-line-ge', file='src/deep/api/tracepoint/trigger.py', old='if event == "line" and file == self.path and line == self.line:', new='if event == "line" and file == self.path and line >= self.line:', props=['C03']),
 dict(id='C03-first-trigger-only', file='src/deep/processor/trigger_handler.py', old='                actions += trigger.actions\n', new='                actions += trigger.actions\n                break\n', props=['C03']),
 dict(id='C03-merge-overwrite', file='src/deep/grpc/__init__.py', old='all_triggers[location_id].merge_actions(trigger.actions)', new='all_triggers[location_id] = trigger', props=['C03', 'C11']),
 dict(id='C03-func-on-return', file='src/deep/api/tracepoint/trigger.py', old='if event == "call" and function_name == self.__function_name:', new='if event in ("call", "return") and function_name == self.__function_name:', props=['C03']),
 dict(id='C02-swap-short', file='src/deep/processor/frame_collector.py', old='return StackFrame(filename, short_path, func_name,', new='return StackFrame(short_path, filename, func_name,', props=['C02']),
 dict(id='C02-lineno-back', file='src/deep/processor/frame_collector.py', old='        lineno = frame.f_lineno\n', new='        lineno = frame.f_back.f_lineno if frame.f_back is not None and frame is self._FrameCollector__frame else frame.f_lineno\n', props=['C02']),
 dict(id='C02-collect-idx1', file='src/deep/processor/context/snapshot_action.py', old='        return current_frame_index == 0', new='        return current_frame_index <= 1', props=['C02']),
 dict(id='C02-list-str', file='src/deep/processor/variable_processor.py', old="        return 'Size: %s' % len(var_value)", new="        return str(var_value)", props=['C02', 'C05']),
 dict(id='C02-drop-last-local', file='src/deep/processor/frame_collector.py', old='                var_ids = variable_val.children\n', new='                var_ids = variable_val.children[:-1] if len(variable_val.children) > 3 else variable_val.children\n', props=['C02', 'C06']),
 dict(id='C02-class-from-cls', file='src/deep/processor/frame_collector.py', old="        _self = f_locals.get('self', None)", new="        _self = f_locals.get('self', f_locals.get('n', None))", props=['C02']),
 dict(id='C02-watch-other-frame', file='src/deep/processor/context/trigger_context.py', old='return eval(expression, None, self.__frame.f_locals)', new='return eval(expression, None, (self.__frame.f_back or self.__frame).f_locals if expression == "n" else self.__frame.f_locals)', props=['C02', 'C10']),
 dict(id='C02-exclude-after-include', file='src/deep/config/config_service.py', old='''        for path in in_app_exclude:
            if filename.startswith(path):
                return False, path

        for path in in_app_include:
            if filename.startswith(path):
                return True, path
''', new='''        for path in in_app_include:
            if filename.startswith(path):
                return True, path

        for path in in_app_exclude:
            if filename.startswith(path):
                return False, path
''', props=['C02', 'C19']),
 dict(id='C04-count-le', file='src/deep/api/tracepoint/trigger.py', old='self.fire_count <= self.__stats.fire_count', new='self.fire_count < self.__stats.fire_count', props=['C04']),
 dict(id='C04-no-last-fire', file='src/deep/api/tracepoint/tracepoint_config.py', old='        self._last_fire = ts\n', new='        pass\n', props=['C04']),
 dict(id='C04-period-us', file='src/deep/api/tracepoint/trigger.py', old='return self.fire_period * 1_000_000', new='return self.fire_period * 1_000', props=['C04']),
 dict(id='C04-parse-default-unlimited', file='src/deep/api/tracepoint/trigger.py', old="        return self.__get_int(FIRE_COUNT, 1)", new="        return self.__get_int(FIRE_COUNT, -1)", props=['C04', 'C11']),
 dict(id='C04-record-rejected', file='src/deep/processor/context/action_context.py', old="        if self.has_triggered():\n", new="        if True:\n", props=['C10', 'C04']),
 dict(id='C04-window-ignored', file='src/deep/api/tracepoint/tracepoint_config.py', old="        return self._start <= ts <= self._end", new="        return self._start <= ts", props=['C04']),
 dict(id='C04-boundary-strict', file='src/deep/api/tracepoint/trigger.py', old="if time_since_last < self.__fire_period_ns():", new="if time_since_last <= self.__fire_period_ns() and self.__fire_period_ns() > 0:", props=['C04']),
 dict(id='C11-log-ignores-nocollect', file='src/deep/api/tracepoint/trigger.py', old="    if SNAPSHOT not in args or args[SNAPSHOT] != NO_COLLECT:\n        return None\n", new="", props=['C11']),

 dict(id='C11-method-name-ignored-with-stage', file='src/deep/api/tracepoint/trigger.py', old="        location = FunctionLocation(path, args.get(METHOD_NAME, None), position)", new="        location = FunctionLocation(path, args.get(METHOD_NAME, None) if STAGE not in args else None, position)", props=['C11']),
 dict(id='C11-merge-loses-watches', file='src/deep/grpc/__init__.py', old="            all_triggers[location_id].merge_actions(trigger.actions)", new="            all_triggers[location_id].merge_actions([a for a in trigger.actions if not a.config.get('watches')])", props=['C11']),
 dict(id='C11-metric-first-only', file='src/deep/api/tracepoint/trigger.py', old="        'metrics': metrics,\n", new="        'metrics': metrics[:1],\n", props=['C11', 'C17']),
 dict(id='C11-condition-dropped-for-metric', file='src/deep/api/tracepoint/trigger.py', old="    condition = args[CONDITION] if CONDITION in args else None\n    return LocationAction(tp_id, condition, {\n        'metrics'", new="    condition = None\n    return LocationAction(tp_id, condition, {\n        'metrics'", props=['C11']),
 dict(id='C11-skip-after-bad', file='src/deep/grpc/__init__.py', old="            logging.warning(\"Cannot process tracepoint %s, skipping it.\", r.ID)\n            continue", new="            logging.warning(\"Cannot process tracepoint %s, skipping it.\", r.ID)\n            break", props=['C11', 'C12']),
 dict(id='C09-inline-push', file='src/deep/push/push_service.py', old="        task = self.task_handler.submit_task(self._push_task, snapshot)\n", new="        if len(self.task_handler._pending) >= 2:\n            self._push_task(snapshot)\n            return\n        task = self.task_handler.submit_task(self._push_task, snapshot)\n", props=['C09']),
 dict(id='C09-flush-result-again', file='src/deep/task/__init__.py', old="        wait(list(self._pending.values()), timeout=10)\n", new="        for future in list(self._pending.values()):\n            future.result(10)\n", props=['C09', 'C14']),
 dict(id='C09-flush-ignores-pending', file='src/deep/task/__init__.py', old="        wait(list(self._pending.values()), timeout=10)\n", new="        wait(list(self._pending.values())[:1], timeout=10)\n", props=['C09']),
 dict(id='C09-closed-silent', file='src/deep/task/__init__.py', old="        if not self._open:\n            raise IllegalStateException\n", new="        if not self._open:\n            return\n", props=['C09']),
 dict(id='C09-submit-twice-on-fail', file='src/deep/push/push_service.py', old="        stub.send(converted, metadata=self.grpc.metadata())", new="        try:\n            stub.send(converted, metadata=self.grpc.metadata())\n        except Exception:\n            stub.send(converted, metadata=self.grpc.metadata())", props=['C09']),
 dict(id='C09-pending-key-race', file='src/deep/task/__init__.py', old="        wait(list(self._pending.values()), timeout=10)\n", new="        for key in list(self._pending.keys()):\n            if key in self._pending:\n                wait([self._pending[key]], timeout=10)\n", props=['C09']),
 dict(id='C12-nochange-clears', file='src/deep/config/tracepoint_config.py', old="        self._last_update = ts\n\n    def update_new_config", new="        self._last_update = ts\n        self._tracepoint_config = []\n\n    def update_new_config", props=['C12']),
 dict(id='C12-captured-config-again', file='src/deep/config/tracepoint_config.py', old="        new_config = self._tracepoint_config\n        listeners_copy", new="        listeners_copy", props=['C12']),
 dict(id='C12-timer-dies', file='src/deep/utils.py', old="            except Exception:\n                logging.exception(\n                    \"Repeated function", new="            except ValueError:\n                logging.exception(\n                    \"Repeated function", props=['C12']),

 dict(id='C12-custom-dropped-on-update', file='src/deep/config/tracepoint_config.py', old="                listeners.config_change(ts, old_hash, current_hash, old_config, new_config + self._custom)", new="                listeners.config_change(ts, old_hash, current_hash, old_config, new_config + (self._custom if old_hash is None else []))", props=['C12', 'C13']),
 dict(id='C14-start-ignores-started', file='src/deep/api/deep.py', old="        if self.started:\n            return\n        self.config.plugins", new="        self.config.plugins", props=['C14']),
 dict(id='C14-restore-sys-only', file='src/deep/processor/trigger_handler.py', old="        sys.settrace(self.__old_sys_trace)\n        threading.settrace(self.__old_thread_trace)", new="        sys.settrace(self.__old_sys_trace)\n        threading.settrace(None)", props=['C14']),
 dict(id='C14-save-after-install', file='src/deep/processor/trigger_handler.py', old="        self.__old_sys_trace = sys.gettrace()\n", new="        sys.settrace(self.trace_call)\n        self.__old_sys_trace = sys.gettrace()\n", props=['C14']),
 dict(id='C14-plugin-loop-breaks', file='src/deep/api/deep.py', old="                deep.logging.exception(\"Failed to shutdown plugin %s\", plugin.name)\n", new="                deep.logging.exception(\"Failed to shutdown plugin %s\", plugin.name)\n                break\n", props=['C14', 'C20']),
 dict(id='C14-poll-not-stopped-on-flush-fail', file='src/deep/api/deep.py', old="            except BaseException:\n                deep.logging.exception(\"Failed to shutdown %s\", name)\n", new="            except BaseException:\n                deep.logging.exception(\"Failed to shutdown %s\", name)\n                break\n", props=['C14']),
 dict(id='C14-notrace-wipes', file='src/deep/processor/trigger_handler.py', old="        if self._config.NO_TRACE:\n            return\n        sys.settrace(self.__old_sys_trace)", new="        sys.settrace(self.__old_sys_trace)", props=['C14']),
 dict(id='C14-no-shutdown-flag', file='src/deep/processor/trigger_handler.py', old="        if self._is_shutdown:\n            return None\n", new="", props=['C14']),
 dict(id='C20-loader-aborts', file='src/deep/api/plugin/__init__.py', old="        except (DidNotEnable, Exception) as e:\n            logging.debug(\n                \"Did not import integration %s: %s\", plugin, e\n            )", new="        except (DidNotEnable, Exception) as e:\n            logging.debug(\n                \"Did not import integration %s: %s\", plugin, e\n            )\n            return", props=['C20']),
 dict(id='C20-no-sort', file='src/deep/api/plugin/__init__.py', old="    loaded.sort(key=lambda pl: pl.order() or 0)\n", new="", props=['C20']),
 dict(id='C20-inactive-loaded', file='src/deep/api/plugin/__init__.py', old="                logging.debug(\"Plugin %s is not active.\", plugin_instance.name)\n                continue\n", new="                logging.debug(\"Plugin %s is not active.\", plugin_instance.name)\n", props=['C20']),
 dict(id='C20-decorator-unguarded', file='src/deep/processor/context/snapshot_action.py', old="            except Exception:\n                deep.logging.exception(\"Failed to decorate snapshot: %s \", decorator)", new="            except ValueError:\n                deep.logging.exception(\"Failed to decorate snapshot: %s \", decorator)", props=['C20']),
 dict(id='C20-metric-unguarded', file='src/deep/processor/context/metric_action.py', old="                except Exception:\n                    # one processor failing", new="                except ValueError:\n                    # one processor failing", props=['C20']),
 dict(id='C20-resource-unguarded', file='src/deep/api/deep.py', old="            except Exception:\n                deep.logging.exception(\"Failed to process plugin resource {}\", provider.name)", new="            except ValueError:\n                deep.logging.exception(\"Failed to process plugin resource {}\", provider.name)", props=['C20']),
 dict(id='C20-ctor-fail-aborts', file='src/deep/api/plugin/__init__.py', old="            logging.debug(\"Could not load plugin %s: %s\", plugin, e)\n", new="            logging.debug(\"Could not load plugin %s: %s\", plugin, e)\n            break\n", props=['C20']),
 dict(id='C20-sort-reverse', file='src/deep/api/plugin/__init__.py', old="    loaded.sort(key=lambda pl: pl.order() or 0)\n", new="    loaded.sort(key=lambda pl: pl.order() or 0, reverse=len(loaded) > 2)\n", props=['C20']),
 dict(id='C16-ids-swapped', file='src/deep/processor/context/log_action.py', old="tracepoint_logger.log_tracepoint(self.log, self.action.id, ctx.id)", new="tracepoint_logger.log_tracepoint(self.log, ctx.id, self.action.id)", props=['C16']),
 dict(id='C16-prefix-dropped', file='src/deep/processor/context/log_action.py', old='        log_msg = "[deep] %s" % FormatExtractor()', new='        log_msg = ("[deep] %s" if watch_results or "{" in log_msg else "%s") % FormatExtractor()', props=['C16']),
 dict(id='C16-first-field-only', file='src/deep/processor/context/log_action.py', old="                watch_results.append(watch)\n", new="                if len(watch_results) == 0:\n                    watch_results.append(watch)\n", props=['C16']),
 dict(id='C16-error-text-lost', file='src/deep/processor/context/action_context.py', old='            return WatchResult(source, watch, None, str(e)), {}, str(e)', new='            return WatchResult(source, watch, None, str(e)), {}, ""', props=['C16']),
 dict(id='C16-log-twice-with-snapshot', file='src/deep/api/tracepoint/trigger.py', old="    if SNAPSHOT not in args or args[SNAPSHOT] != NO_COLLECT:\n        return None\n", new="    if SNAPSHOT in args and args[SNAPSHOT] == 'collect':\n        return None\n", props=['C16', 'C11']),
 dict(id='C16-str-of-repr', file='src/deep/processor/variable_set_processor.py', old="        try:\n            return str(value)\n        except BaseException:\n            return f'{type(value)}@{id(value)}'", new="        try:\n            return str(value) if not isinstance(value, (list, dict)) else 'Size: %d' % len(value)\n        except BaseException:\n            return f'{type(value)}@{id(value)}'", props=['C16']),
]
