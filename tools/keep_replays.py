#!/usr/bin/env python3
"""Copy shrunk violation recipes from out/violations into replays/<prop>/ (regression tier). usage: keep_replays.py C06 [prefix]"""
import glob, json, os, sys
ROOT = os.path.dirname(os.path.dirname(os.path.abspath(__file__)))
pid = sys.argv[1]
prefix = sys.argv[2] if len(sys.argv) > 2 else 'fixed'
os.makedirs(os.path.join(ROOT, 'replays', pid), exist_ok=True)
for f in sorted(glob.glob(os.path.join(ROOT, 'out', 'violations', pid + '-*.json'))):
    d = json.load(open(f))
    d.pop('seed', None); d.pop('tier', None)
    out = os.path.join(ROOT, 'replays', pid, '%s-%s' % (prefix, os.path.basename(f)[len(pid) + 1:]))
    json.dump(d, open(out, 'w'), indent=1)
    print(out, d['signature'][:100])
    os.unlink(f)
