#!/usr/bin/env python3
"""Sensitivity runs: apply one small source change to a scratch worktree of /repo and run the checks against it.

usage: tools/run_mutants.py [--only ID,ID] [--props C05,C06] [--jobs N]
Mutants live in tools/mutants.py as dicts: id, file, old, new, props (checks expected to catch it), note.
The scratch worktree is /tmp/vfmut_<id>, removed immediately after the run.
"""
import argparse, json, os, shutil, subprocess, sys, time
from concurrent.futures import ThreadPoolExecutor

ROOT = os.path.dirname(os.path.dirname(os.path.abspath(__file__)))
sys.path.insert(0, os.path.join(ROOT, 'tools'))
from mutants import MUTANTS  # noqa


def run_one(m, props, examples):
    wt = '/tmp/vfmut_%s' % m['id']
    subprocess.run(['git', '-C', '/repo', 'worktree', 'remove', '--force', wt], capture_output=True)
    shutil.rmtree(wt, ignore_errors=True)
    r = subprocess.run(['git', '-C', '/repo', 'worktree', 'add', '--detach', wt, 'HEAD'], capture_output=True, text=True)
    if r.returncode != 0:
        return m['id'], {'error': r.stderr}
    res = {}
    try:
        p = os.path.join(wt, m['file'])
        s = open(p).read()
        if m['old'] not in s:
            return m['id'], {'error': 'old text not found'}
        s = s.replace(m['old'], m['new'], 1)
        open(p, 'w').write(s)
        for pid in props or m['props']:
            env = dict(os.environ, VERIF_REPO=wt, VERIF_SEED=os.environ.get('VERIF_SEED', '1'))
            t0 = time.time()
            cmd = [os.path.join(ROOT, 'check'), pid, '--tier', 'quick']
            if examples:
                cmd += ['--examples', str(examples)]
            # evidence of a mutant run must not overwrite the real evidence
            env['VERIF_EVIDENCE_DIR'] = '/tmp/vfmut_ev_%s' % m['id']
            r = subprocess.run(cmd, cwd=ROOT, env=env, capture_output=True, text=True)
            sigs = [l.strip() for l in r.stdout.splitlines() if l.strip().startswith('signature:')]
            res[pid] = {'rc': r.returncode, 'wall': round(time.time() - t0, 1), 'sigs': sigs[:3]}
            if r.returncode == 2:
                res[pid]['tail'] = (r.stdout + r.stderr)[-400:]
    finally:
        subprocess.run(['git', '-C', '/repo', 'worktree', 'remove', '--force', wt], capture_output=True)
        shutil.rmtree(wt, ignore_errors=True)
        shutil.rmtree('/tmp/vfmut_ev_%s' % m['id'], ignore_errors=True)
    return m['id'], res


def main():
    ap = argparse.ArgumentParser()
    ap.add_argument('--only')
    ap.add_argument('--props')
    ap.add_argument('--jobs', type=int, default=8)
    ap.add_argument('--examples', type=int)
    a = ap.parse_args()
    ms = MUTANTS
    if a.only:
        ids = a.only.split(',')
        ms = [m for m in ms if m['id'] in ids or any(m['id'].startswith(i) for i in ids)]
    props = a.props.split(',') if a.props else None
    with ThreadPoolExecutor(a.jobs) as ex:
        for mid, res in ex.map(lambda m: run_one(m, props, a.examples), ms):
            caught = [p for p, r in res.items() if isinstance(r, dict) and r.get('rc') == 1]
            print('%-28s %s  %s' % (mid, 'CAUGHT by ' + ','.join(caught) if caught else 'MISSED', json.dumps(res)[:500]))
            sys.stdout.flush()


if __name__ == '__main__':
    main()
