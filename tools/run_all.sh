#!/bin/bash
# tools/run_all.sh [tier] [seeds...]   - every registered check, several seeds, fresh processes; prints one line per run
cd "$(dirname "$0")/.."
TIER=${1:-quick}; shift
SEEDS=${@:-1}
mkdir -p out/runall
for s in $SEEDS; do
  for p in C01 C02 C03 C04 C05 C06 C07 C08 C09 C10 C11 C12 C13 C14 C15 C16 C17 C18 C19 C20; do
    echo "$p $s"
  done
done | xargs -P ${JOBS:-6} -L 1 bash -c 'p=$0; s=$1; VERIF_EVIDENCE_DIR=out/runall/ev_$s VERIF_SEED=$s ./check $p --tier '$TIER' > out/runall/$p.$s.log 2>&1; echo "$p seed=$s rc=$? $(grep -c "^VIOLATION" out/runall/$p.$s.log) violations; $(tail -1 out/runall/$p.$s.log | cut -c1-150)"'
