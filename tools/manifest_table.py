check('C13', 'exploration', 'model-based property testing (Hypothesis op-list histories vs multiset model)',
      'Generated register/unregister/service-update histories on a real Deep object; after every step the set of '
      'tracepoints that act is observed behaviourally at every pool location and must equal the model. Both directions '
      '(nothing extra, nothing missing) plus args/metrics given at registration.',
      'Listener updates are applied inline; pool of 3 locations, <= 40 ops.')
check('C03', 'exploration', 'property-based testing: generated programs x tracepoint sets, event-stream oracle via interposed trace function',
      'Every trace event of a generated program is seen first by an interposed trace function which decides by the '
      'property\'s own definition which tracepoints are due, then delegates to the real handler; what the recorders '
      'received during that delegation must equal what was due - per event, both directions, all four action kinds.',
      'Paths are basenames; rate limits off; one runnable program thread at a time; generator resumes may or may not fire.')
check('C06', 'exploration', 'property-based testing: generated object graphs (hostile catalogue) on real paused frames, invariant oracle',
      'Object graphs over the whole value catalogue (hostile dunders, no-__dict__ objects, non-UTF-8 text, iterators, '
      'non-str keys) bound to locals / watch / captured return / captured exception with 1-4 actions on one event; '
      'every due snapshot must exist, convert and serialise, keep sentinels intact, list every local, be closed, not '
      'share tables and not consume iterators.',
      'Frames are suspended-generator frames driven through TriggerHandler.trace_call directly; hostile dunders are stateless.')
