check('C13', 'exploration', 'model-based property testing (Hypothesis op-list histories vs multiset model)',
      'Generated register/unregister/service-update histories on a real Deep object; after every step the set of '
      'tracepoints that act is observed behaviourally at every pool location and must equal the model. Both directions '
      '(nothing extra, nothing missing) plus args/metrics given at registration.',
      'Listener updates are applied inline; pool of 3 locations, <= 40 ops.')
check('C03', 'exploration', 'property-based testing: generated programs x tracepoint sets, event-stream oracle via interposed trace function',
      'Every trace event of a generated program is seen first by an interposed trace function which decides by the '
      'property\'s own definition which tracepoints are due, then delegates to the real handler; what the recorders '
      'received during that delegation must equal what was due - per event, both directions, all four action kinds.',
      'Paths are basenames; rate limits off; one runnable program thread at a time; generator resumes may or may not fire.')
check('C06', 'exploration', 'property-based testing: generated object graphs (hostile catalogue) on real paused frames, invariant oracle',
      'Object graphs over the whole value catalogue (hostile dunders, no-__dict__ objects, non-UTF-8 text, iterators, '
      'non-str keys) bound to locals / watch / captured return / captured exception with 1-4 actions on one event; '
      'every due snapshot must exist, convert and serialise, keep sentinels intact, list every local, be closed, not '
      'share tables and not consume iterators.',
      'Frames are suspended-generator frames driven through TriggerHandler.trace_call directly; hostile dunders are stateless.')
check('C02', 'exploration', 'property-based testing: generated programs + object graphs, same-run frame reading as reference (differential)',
      'At every tracepoint event the interposed tracer reads the whole f_back chain itself and the snapshot pushed by the '
      'real agent is compared with it: frames (file, function, line, class of self, app flag, short path), frame-0 variable '
      'names = locals, frame_type policy, every variable\'s type / text / children (name-keyed), watches vs the oracle\'s own '
      'eval, tracepoint identity and attributes.',
      'Completeness of children required for objects within max depth - 2 of the frame locals; truthfulness for all.')
check('C05', 'exploration', 'property-based testing: generated large object graphs x generated limits, invariant + shortest-path-depth oracle',
      'Graphs built to exceed each of the four limits; bounds on count, string length/truncated flag, collection size and '
      'depth are asserted over the whole table (frame and watch values), and breadth-first order is decided from the '
      'oracle\'s own shortest-path depths over the same live graph.',
      'Limits injected through the LocationAction config; set elements count-checked only.')
check('C07', 'exploration', 'property-based testing: aliasing/cyclic object graphs on a real running frame chain, closure + bijection invariants',
      'Aliased and cyclic graphs are bound to locals of inner/outer/module frames of a running program; watches name values '
      'already in the frame; log-only and snapshot actions share the event; the budget cuts the graph. Every reference must '
      'resolve (Python snapshot and wire message), the object<->id relation found by a joint walk over names must be a '
      'bijection, and the table may not be larger than the set of distinct reachable objects.',
      'Identity claims only for objects the frame keeps alive; one known finding (watch `locals()`), see known_findings.json.')
check('C10', 'exploration', 'property-based testing: expression grammar x hit histories, frame-scope eval oracle + reference limiter',
      'Conditions from a grammar (boolean-valued over locals, host globals, builtins, helpers; blank; failing in every way) '
      'gate 1-8 hits with per-hit state; expected collecting hits = reference limiter fed with the oracle\'s own truth '
      'stream (rejected hits consume nothing). Watches, log fields, metric expressions and labels are compared with the '
      'oracle\'s eval in the frame\'s own globals/locals; agent-only names must fail; failures must be error results.',
      'Hits driven via trace_call on suspended-generator frames of a host module with its own globals.')
check('C04', 'exploration', 'property-based testing: hit-time histories vs reference limiter; harness-owned overlap schedules (inline re-entrancy + gated threads)',
      'Sequential histories on a virtual clock (gaps on and around the period boundary, unparsable settings, windows) are '
      'compared hit by hit with a reference limiter in both directions. Overlapping hits are produced by running the '
      '"other thread\'s" hit inside the first at its yield points (clock read, host __str__ during collection) and with '
      'gated real threads; bounds (count, spacing, all-allowed-must-collect) are asserted.',
      'Overlap at call-out granularity only; three known findings (overlap during collection x2, window args dropped).')
check('C01', 'fault_enumeration', 'differential property-based testing (agent-free run vs traced run) + nth-call fault injection from a dry-run inventory',
      'Generated programs holding hostile values run without and with the real handler installed via threading.settrace, '
      'with generated tracepoints of all kinds (malformed, raising expressions incl. BaseException), plugins raising in any '
      'callback, and faults injected at the k-th call of any agent function the dry run reached. The observation must be '
      'identical, no agent exception may reach program code, the thread trace function must still be installed, and the '
      'program must not hang.',
      'Fault points are drawn from every function/method/property of 20 agent modules reached by the case; the entry '
      'function itself is excluded. Internal faults are Exception subclasses.')
check('C11', 'exploration', 'exhaustive enumeration of the argument table (thorough) / sampling (quick) + property-based responses, behavioural oracle',
      'Every row of the 2.49M-row argument table is installed from a protobuf response and its effects (snapshot, log, '
      'metrics, span; on the line or on the named method; condition, fire count, watches) are observed by driving hits and '
      'compared with the expectation derived from the statement; generated responses add same-location groups, '
      'uninterpretable members at any position and registration in code.',
      'Quick tier samples the table (every 997th row + Hypothesis draws); the thorough tier enumerates it completely over 16 '
      'shards (exhaustive: true).')
check('C09', 'exploration', 'model-based property testing of op histories with harness-owned schedules (simulated executor + yield-point dict) and gated real threads',
      'Histories of push/submit/run/flush/submit-after-close on a real TaskHandler + PushService + fake channel. In the '
      'simulated mode tasks complete only when the generated schedule says so and every access flush() makes to the '
      'pending table, and every blocking wait, is a yield point; the real mode gates sends on the real 2-worker pool. '
      'Invariants: sent exactly once (or 0 iff own failure), never on the pushing thread, flush returns normally only after '
      'every accepted task finished, nothing left pending, refused visibly after close.',
      'Tasks always finish once scheduled; blocked-flush detection polls at 4 ms (affects scheduling only).')
check('C12', 'exploration', 'model-based property testing of poll/registration histories with task-granular schedule control; real timer mode',
      'Histories of UPDATE / NO_CHANGE / error / undecodable / partly-bad polls, register / unregister and run-task steps '
      '(apply tasks executed in any order two workers allow) on real ConfigService + TracepointConfigService + '
      'TriggerHandler + LongPoll; reference model of latest configuration, hash and live registrations; invariants on '
      'every poll request and convergence at quiescence, read behaviourally. A timer mode runs the real RepeatedTimer '
      'against a failing scripted service.',
      'Task-granular reordering (an apply task is one reference assignment); convergence demanded only at quiescence.')
check('C14', 'exploration', 'model-based property testing of start/shutdown histories on a real Deep with fault sets',
      'Histories of start/shutdown on a real Deep (fake channel, synthetic plugins loaded by the real loader) with '
      'pre-existing sys/threading hooks, NO_TRACE, failing pending sends, raising plugin shutdowns and a program thread '
      'parked in traced code across the shutdown; hooks are compared by identity before/after, timer thread liveness, '
      'plugin shutdown counts, started flag and absence of any action after shutdown are asserted after every step.',
      'All lifecycle calls from one thread; restart after a completed shutdown is outside the statement and not generated.')
check('C20', 'fault_enumeration', 'property-based plugin-set generation + enumeration of fault placements, metamorphic oracle (fault-free vs faulty run)',
      'Generated plugin sets (synthetic modules imported by the real loader; missing / inactive / raising constructors) run '
      'start -> two hits of a snapshot+log+metrics+span tracepoint -> shutdown fault-free, then once per placement '
      '(plugin, callback, k-th call). The loader result (membership, order), resource precedence and - under every '
      'placement - identical calls for every other plugin, delivered snapshots with the healthy decorations, all spans '
      'closed, all plugins shut down, normal return of start/shutdown are asserted.',
      'Quick samples up to 6 placements per scenario, thorough enumerates all placements of each scenario; plugin faults are Exception subclasses.')
check('C16', 'exploration', 'grammar-based property testing with an independent reference renderer (differential), plus arbitrary template text',
      'Templates from a grammar are rendered by an independent scanner (written from the statement, not string.Formatter) '
      'in the frame\'s own scope and compared with the message the tracepoint logger receives, its tracepoint-id / '
      'context-id arguments, the snapshot\'s log message and its LOG watch results (one per field, in order); arbitrary '
      'brace/punctuation text is additionally thrown at the agent with the weaker "no exception, at most one message" oracle.',
      'Expressions avoid format-reserved characters; values in fields have a working str().')
check('C17', 'exploration', 'exhaustive enumeration of the type x expression x label x processor-count table + property-based metric lists, reference computation in the frame',
      'Metric definitions through the code route and the protobuf route; expected calls are computed from the definitions '
      'and the oracle\'s own eval in the paused frame: per permitted hit, per metric, per processor exactly one call of the '
      'operation named by the type with name, labels, namespace (default deep), help, unit and value (float(expr) or 1); '
      'with zero processors nothing is reported and the fire budget stays untouched.',
      'Recording processors are the observation point (real Prometheus/OTel back-ends are out of scope).')
check('C18', 'exploration', 'model-based property testing (op histories vs reference models) + algebraic laws + environment/plugin precedence end to end',
      'BoundedAttributes histories against a reference model (two accepted readings of "oldest"; cleaning rules; drop '
      'counter; frozen behaviour), resource merge chains (operands unchanged, key-by-key override, schema rule), '
      'Resource.create under generated DEEP_RESOURCE_ATTRIBUTES/DEEP_SERVICE_NAME (mandatory keys, built-in < env < code), '
      'and Deep.start with generated resource-provider plugins compared with the resource in the first poll request.',
      'Sequence-valued attributes on the wire are left to C08.')
check('C19', 'exploration', 'exhaustive enumeration of the key x source table + property-based parity (code vs environment, differential) + reference classifier',
      'Every (key, code source, env set/unset) row is resolved against a reference resolver; every documented key is given '
      'once in code and once as DEEP_<KEY> text and the two agents, started through deep.start(), are compared where the '
      'setting acts (channel constructor and target, auth metadata, logging config file, poll timer interval / liveness / '
      'tick arithmetic, frame classification); generated paths are classified under generated prefix sets supplied as list, '
      'string or environment text and compared with the statement\'s classifier.',
      'deep.config is reloaded per row; TLS credentials are not exercised, only the secure/insecure choice.')
check('C08', 'exploration', 'property-based testing: independent projection (differential) + serialisation round-trip + metadata invariant at a fake channel',
      'Collector-produced and synthetic snapshots are pushed through the real PushService/TaskHandler to a fake channel; the '
      'bytes it received are re-parsed and compared field by field with a projection of the Python snapshot written from '
      'the .proto field list; every poll and send must carry exactly the configured provider\'s metadata.',
      'Transport below the channel object (HTTP/2, TLS) is not exercised; unencodable text only has to be present.')
check('C15', 'exploration', 'property-based testing: generated invocation-shaped programs, merged timeline invariant via interposed trace function',
      'Programs built from recursion, nesting, caught and propagating exceptions, finally and generators carry method/line '
      'spans and method/line capture snapshots on 1-3 sequential threads; the interposer\'s invocation stack and the '
      'recording span plugin / push service form one timeline on which every opening must be completed exactly once, in a '
      'later event, while its invocation is live, on its own thread, with the result of that invocation; nothing may stay '
      'pending for an ended thread.',
      'Early completion inside the opening invocation is allowed; three known findings (name-based callback matching), see known_findings.json.')
