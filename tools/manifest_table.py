check('C13', 'exploration', 'model-based property testing (Hypothesis op-list histories vs multiset model)',
      'Generated register/unregister/service-update histories on a real Deep object; after every step the set of '
      'tracepoints that act is observed behaviourally at every pool location and must equal the model. Both directions '
      '(nothing extra, nothing missing) plus args/metrics given at registration.',
      'Listener updates are applied inline; pool of 3 locations, <= 40 ops.')
