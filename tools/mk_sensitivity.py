#!/usr/bin/env python3
"""Regenerate DESIGN.md section 10 (between the markers) from out/mutants_results.txt and seeded/*/meta.json."""
import glob, json, os, re, sys
ROOT = os.path.dirname(os.path.dirname(os.path.abspath(__file__)))
sys.path.insert(0, os.path.join(ROOT, 'tools'))
from mutants import MUTANTS

res = {}
p = os.path.join(ROOT, 'docs', 'mutants_results.txt')
if os.path.exists(p):
    for line in open(p):
        m = re.match(r'(\S+)\s+(CAUGHT by (\S+)|MISSED)\s+(\{.*)', line)
        if m:
            res[m.group(1)] = (m.group(3) or '', m.group(4))
lines = []
lines.append('### 10.1 Hand-written changes (`tools/mutants.py`, run with `tools/run_mutants.py`)\n')
lines.append('Each is one small edit of `/repo` applied to a scratch worktree (`VERIF_REPO`), the listed checks are run in')
lines.append('their *quick* tier with `VERIF_SEED=1`.  "caught" = exit 1 with a VIOLATION line.\n')
lines.append('| Change | File | Expected by | Result | First signature |')
lines.append('|---|---|---|---|---|')
caught = missed = 0
for m in MUTANTS:
    r = res.get(m['id'])
    sig = ''
    if r:
        try:
            d = json.loads(r[1]) if r[1].rstrip().endswith('}') else {}
        except Exception:
            d = {}
        for pid, v in d.items():
            if isinstance(v, dict) and v.get('sigs'):
                sig = v['sigs'][0].replace('signature: ', '')[:90]
                break
        if not sig:
            mm = re.search(r'signature: ([^"]+)"', r[1])
            sig = mm.group(1)[:90] if mm else ''
    status = 'not run' if r is None else ('caught by ' + r[0] if r[0] else 'MISSED')
    if r is not None:
        caught += bool(r[0]); missed += not r[0]
    lines.append('| %s | %s | %s | %s | %s |' % (m['id'], os.path.basename(m['file']), ','.join(m['props']), status,
                                               sig.replace('|', '/')))
lines.append('\nTotals: %d caught, %d missed of %d run.\n' % (caught, missed, caught + missed))
lines.append('### 10.2 Changes written by independent sub-agents (`seeded/`)\n')
lines.append('Each sub-agent was given only the text of one property and a scratch worktree of `/repo` (nothing from `/verif`) and')
lines.append('asked for a change that breaks the property, compiles, passes the existing tests and needs something specific to')
lines.append('manifest, with a demonstration program.  `tools/seeded.py verify` re-confirms all of that in a fresh worktree')
lines.append('(demo passes before / fails after, unit tests pass) and runs the checks against the changed tree.\n')
lines.append('| Id | Breaks | Needs in order to manifest (abridged) | Valid | Caught by | First signature | Caught before strengthening? |')
lines.append('|---|---|---|---|---|---|---|')
FIRST = {'C03-s1', 'C04-s1', 'C05-s1', 'C05-s2', 'C13-s1', 'C08-s2', 'C09-s1', 'C09-s2', 'C11-s1', 'C11-s2', 'C12-s2',
         'C16-s1', 'C17-s1', 'C19-s1', 'C19-s2', 'C20-s2',
         'C02-t1', 'C02-t2', 'C03-t2', 'C04-t2', 'C05-t1', 'C05-t2', 'C06-t1', 'C07-t2', 'C08-t1', 'C08-t2', 'C09-t1',
         'C09-t2', 'C11-t2', 'C12-t1', 'C12-t2', 'C13-t1', 'C15-t1', 'C16-t1', 'C17-t2', 'C18-t2', 'C19-t2', 'C20-t1',
         'C03-u1', 'C03-u2', 'C04-u1', 'C04-u2', 'C05-u1', 'C06-u1', 'C06-u2', 'C08-u1', 'C08-u2', 'C09-u1', 'C10-u1',
         'C11-u2', 'C12-u1', 'C12-u2', 'C13-u1', 'C14-u1', 'C15-u1', 'C16-u1', 'C17-u1', 'C17-u2', 'C19-u1', 'C19-u2',
         'C01-v2', 'C03-v1', 'C04-v1', 'C05-v2', 'C07-v1', 'C07-v2', 'C08-v1', 'C09-v2', 'C10-v2', 'C11-v2', 'C12-v1',
         'C12-v2', 'C13-v1', 'C13-v2', 'C14-v2', 'C15-v1', 'C15-v2', 'C16-v1', 'C16-v2', 'C17-v1', 'C17-v2', 'C18-v1',
         'C18-v2', 'C19-v2', 'C20-v1',
         'C02-w2', 'C05-w1', 'C07-w2', 'C08-w1', 'C12-w1', 'C12-w2', 'C13-w1', 'C14-w1', 'C16-w1', 'C16-w2', 'C18-w2',
         'C20-w1', 'C03-w2', 'C06-w2', 'C10-w1', 'C11-w1', 'C11-w2', 'C13-w2',
         'C01-x1', 'C02-x1', 'C03-x2', 'C04-x1', 'C04-x2', 'C06-x1', 'C07-x1', 'C07-x2', 'C08-x1', 'C08-x2', 'C10-x2',
         'C11-x1', 'C11-x2', 'C12-x2', 'C13-x2', 'C14-x2', 'C16-x1', 'C16-x2', 'C17-x2', 'C19-x2', 'C20-x1',
         'C06-x2', 'C09-x2',
         'C03-y1', 'C04-y1', 'C04-y2', 'C08-y2', 'C09-y1', 'C09-y2', 'C10-y1', 'C10-y2', 'C11-y1', 'C11-y2', 'C12-y1',
         'C13-y1', 'C13-y2', 'C14-y1', 'C15-y2', 'C18-y1', 'C18-y2', 'C19-y1', 'C19-y2', 'C03-y2', 'C06-y2', 'C12-y2',
         'C17-y2',
         'C05-z2', 'C08-z1', 'C08-z2', 'C11-z1', 'C12-z1', 'C13-z1', 'C13-z2', 'C16-z1', 'C20-z1', 'C20-z2', 'C05-z1',
         'C11-z2'}
n = c = 0
for d in sorted(glob.glob(os.path.join(ROOT, 'seeded', '*'))):
    meta = json.load(open(os.path.join(d, 'meta.json')))
    w = meta.get('what_was_run', {})
    valid = w.get('demo_clean_rc') == 0 and w.get('demo_patched_rc') == 1 and w.get('unit_tests_rc', 0) == 0
    caught_by = ','.join(w.get('caught_by') or [])
    sig = ''
    for pid, v in (w.get('checks') or {}).items():
        if v.get('signatures'):
            sig = v['signatures'][0][:80]
            break
    needs = ' '.join(meta.get('needs_to_manifest', '').split())
    mm = re.search(r'(needs|Needs|manifest)[^.]*\.', needs)
    short = (mm.group(0) if mm else needs[:160])[:170]
    n += 1; c += bool(caught_by)
    lines.append('| %s | %s | %s | %s | %s | %s | %s |' % (meta['id'], meta['property'], short.replace('|', '/'),
                                                       'yes' if valid else 'no (see meta.json)', caught_by or '—',
                                                       sig.replace('|', '/'), 'yes' if meta['id'] in FIRST else 'no'))
lines.append('\n%d of %d changes are caught on the current tree.\n' % (c, n))
text = '\n'.join(lines)
dp = os.path.join(ROOT, 'DESIGN.md')
s = open(dp).read()
a, b = '<!-- SENSITIVITY:BEGIN -->', '<!-- SENSITIVITY:END -->'
if a in s:
    s = s[:s.index(a) + len(a)] + '\n' + text + '\n' + s[s.index(b):]
    open(dp, 'w').write(s)
    print('section 10 regenerated: hand %d/%d, seeded %d/%d' % (caught, caught + missed, c, n))
else:
    print(text[:2000])
