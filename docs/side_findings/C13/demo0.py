"""
C13 demo 0: behaviours of the UNMODIFIED tree that do not match the property (each is reported on its own line).

 A. a tracepoint registered on a line of a function that is already running is never active in that frame when the
    agent had no tracepoint at all at the moment the function was entered (TriggerHandler returns None for the 'call'
    event while the config is empty, so python never delivers line events for that frame). With any other tracepoint
    configured at that moment the very same registration works (see demo2.py).
 B. the watches list given to register_tracepoint is kept by reference: changing the list afterwards (e.g. re-using it
    for the next registration) changes the watches of the tracepoint registered earlier.
 C. after Deep.shutdown() the first unregister() of a handle raises deep.task.IllegalStateException (a BaseException),
    the second one is silent; register_tracepoint() raises the same way AFTER it has stored the tracepoint, so no
    handle exists that could remove it.
"""
import os
import sys
import threading
import time

from deep.api.deep import Deep
from deep.api.resource import Resource
from deep.config import ConfigService
from deep.config.tracepoint_config import TracepointConfigService

THIS_FILE = os.path.basename(__file__)


def line_of(marker):
    with open(__file__) as f:
        for no, text in enumerate(f, 1):
            if text.rstrip().endswith("# " + marker):
                return no
    raise AssertionError(marker)


class Control:
    def __init__(self):
        self.iterations = 0
        self.stop = False


def worker_loop(control):
    total = 0
    while not control.stop:
        total += 1
        control.iterations = total  # LINE_IN_LOOP
        time.sleep(0.005)
    return total


def once():
    x = 1
    y = x + 1  # LINE_ONCE
    return y


LINE_IN_LOOP = line_of("LINE_IN_LOOP")
LINE_ONCE = line_of("LINE_ONCE")


def wait_idle(task_handler, timeout=10):
    end = time.time() + timeout
    while time.time() < end:
        if len(task_handler._pending) == 0:
            time.sleep(0.05)
            if len(task_handler._pending) == 0:
                return
        time.sleep(0.01)
    raise AssertionError("tasks did not complete")


def wait_iterations(control, count, timeout=10):
    start = control.iterations
    end = time.time() + timeout
    while control.iterations < start + count:
        if time.time() > end:
            raise AssertionError("worker does not make progress")
        time.sleep(0.01)


def new_deep():
    config = ConfigService({'APP_ROOT': os.path.dirname(os.path.abspath(__file__)), 'NO_TRACE': False},
                           tracepoints=TracepointConfigService())
    deep = Deep(config)  # wired, never started: no network
    config.resource = Resource.create()
    pushed = []
    deep.push.push_snapshot = pushed.append
    return deep, pushed


def check_a(problems):
    deep, pushed = new_deep()
    deep.trigger_handler.start()
    control = Control()
    worker = threading.Thread(target=worker_loop, args=(control,), daemon=True)
    try:
        worker.start()  # started after the agent, no tracepoint exists yet
        wait_iterations(control, 5)
        deep.register_tracepoint(THIS_FILE, LINE_IN_LOOP, {'fire_count': '-1', 'fire_period': '0'})
        wait_idle(deep.task_handler)
        wait_iterations(control, 20)
        if not [s for s in pushed if s.tracepoint.line_no == LINE_IN_LOOP]:
            problems.append("A: tracepoint registered on %s:%s never fired in the running loop (%d iterations)"
                            % (THIS_FILE, LINE_IN_LOOP, control.iterations))
    finally:
        control.stop = True
        worker.join(5)
        deep.trigger_handler.shutdown()
        deep.task_handler.flush()


def check_b(problems):
    deep, pushed = new_deep()
    watches = ['x']
    deep.register_tracepoint(THIS_FILE, LINE_ONCE, {'fire_count': '-1', 'fire_period': '0'}, watches)
    watches.append('x + 100')  # the caller goes on using its list
    wait_idle(deep.task_handler)
    deep.trigger_handler.start()
    try:
        once()
    finally:
        deep.trigger_handler.shutdown()
        deep.task_handler.flush()
    got = [[w.expression for w in s.watches] for s in pushed]
    if got != [['x']]:
        problems.append("B: registered with watches ['x'], the snapshot has %s" % got)


def check_c(problems):
    deep, pushed = new_deep()
    registration = deep.register_tracepoint(THIS_FILE, LINE_ONCE, {'fire_count': '-1'})
    wait_idle(deep.task_handler)
    # what Deep.shutdown() does to the pieces that are in use here (it needs a started agent, i.e. a network)
    deep.trigger_handler.shutdown()
    deep.task_handler.flush()
    try:
        registration.unregister()
    except BaseException as e:
        problems.append("C: unregister() after shutdown raised %s.%s" % (type(e).__module__, type(e).__name__))
    registration.unregister()
    before = len(deep.config.tracepoints._custom)
    try:
        deep.register_tracepoint(THIS_FILE, LINE_ONCE)
    except BaseException as e:
        problems.append("C: register_tracepoint() after shutdown raised %s.%s and left %d tracepoint(s) behind that "
                        "no handle can remove" % (type(e).__module__, type(e).__name__,
                                                  len(deep.config.tracepoints._custom) - before))


def main():
    problems = []
    check_a(problems)
    check_b(problems)
    check_c(problems)
    if problems:
        for p in problems:
            print("FAIL:", p)
        return 1
    print("PASS")
    return 0


if __name__ == '__main__':
    sys.exit(main())
