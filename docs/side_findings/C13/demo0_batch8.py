"""
C13 demo 0 (UNMODIFIED tree): arguments a tracepoint can be given through the public path that do not take effect.

 (a) a collection limit (MAX_VARIABLES, MAX_STRING_LENGTH, ...) given to Deep.register_tracepoint (or sent by the
     service) is stored in the action config as an int; LocationAction.tracepoint hands the whole action config to the
     snapshot as the tracepoint's args, and deep.push.convert_snapshot puts them into the protobuf map<string,string>:
     TypeError -> convert_snapshot returns None -> the snapshot is never sent. The tracepoint "fires" but nothing
     reaches the service.
 (b) window_start / window_end (deep.api.tracepoint.constants, read by LocationAction into a TracepointWindow) are not
     forwarded by any build_*_action: a tracepoint registered with a window that closed long ago still fires.

Run: PYTHONPATH=<tree>/src /venv/bin/python demo0.py   -> prints FAIL / exit 1 on the unmodified tree
"""
import linecache
import sys
from concurrent.futures import wait

from deep.api import Deep
from deep.api.resource import Resource
from deep.config import ConfigService
from deep.config.tracepoint_config import TracepointConfigService

# noinspection PyUnresolvedReferences
from deepproto.proto.poll.v1.poll_pb2 import PollResponse, ResponseType
# noinspection PyUnresolvedReferences
from deepproto.proto.tracepoint.v1.tracepoint_pb2 import TracePointConfig

HOST = "sg13_demo0_host.py"
SRC = """def work(n):
    a = n + 1
    b = a * 2
    return b
"""
linecache.cache["/app/" + HOST] = (len(SRC), None, SRC.splitlines(True), "/app/" + HOST)
ns = {}
exec(compile(SRC, "/app/" + HOST, "exec"), ns)
work = ns["work"]

ARGS = {"fire_count": "-1", "fire_period": "0"}


class FakeChannel:
    """Records the snapshots that are sent to the service."""

    def __init__(self):
        self.sent = []

    def unary_unary(self, method, request_serializer=None, response_deserializer=None, **kwargs):
        def call(request, metadata=None, **kw):
            self.sent.append(list(request.tracepoint.watches))

        return call


def build():
    cfg = ConfigService({"SERVICE_URL": "nowhere:1", "SERVICE_SECURE": "False", "APP_ROOT": "/app"},
                        tracepoints=TracepointConfigService())
    cfg.resource = Resource.create()
    deep = Deep(cfg)  # not started: no network, no global settrace - we feed the trace function ourselves
    return deep, []


def settle(deep):
    wait(list(deep.task_handler._pending.values()), timeout=10)


def hit(deep, fired):
    del deep.grpc.channel.sent[:]
    sys.settrace(deep.trigger_handler.trace_call)
    try:
        work(1)
    finally:
        sys.settrace(None)
    settle(deep)  # the push is a task
    return sorted(w[0] for w in deep.grpc.channel.sent)


problems = []


def expect(what, got, want):
    ok = got == want
    print("%-78s got=%s want=%s %s" % (what, got, want, "ok" if ok else "<-- WRONG"))
    if not ok:
        problems.append(what)


import logging

logging.disable(logging.CRITICAL)  # the conversion error is logged with a traceback, keep the output readable

deep, fired = build()
deep.grpc.channel = FakeChannel()

reg_p = deep.register_tracepoint(HOST, 2, dict(ARGS), ["'PLAIN'"])
settle(deep)
expect("plain registration: its snapshot reaches the service", hit(deep, fired), ["'PLAIN'"])
reg_p.unregister()
settle(deep)

# (a)
reg_l = deep.register_tracepoint(HOST, 2, dict(ARGS, MAX_VARIABLES="5"), ["'LIMIT'"])
settle(deep)
expect("(a) registration with MAX_VARIABLES='5': its snapshot reaches the service", hit(deep, fired), ["'LIMIT'"])
reg_l.unregister()
settle(deep)

# (b)
reg_w = deep.register_tracepoint(HOST, 2, dict(ARGS, window_start="1", window_end="2"), ["'WINDOW'"])
settle(deep)
expect("(b) registration with a window that ended in 1970: does not fire", hit(deep, fired), [])
reg_w.unregister()
settle(deep)

deep.task_handler.flush()
if problems:
    print("FAIL")
    sys.exit(1)
print("PASS")
sys.exit(0)
