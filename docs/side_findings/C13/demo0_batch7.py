"""
C13 demo 0 (UNMODIFIED tree): register_tracepoint / unregister while the agent is shut down.

Run as: PYTHONPATH=<tree>/src /venv/bin/python demo0.py
Deep.shutdown closes the task handler; add_custom / remove_custom change the list first and submit the update after, so
 - unregister() on a shut down agent raises IllegalStateException (a BaseException) into the application, and
 - register_tracepoint() on a shut down agent raises as well - no handle is returned - but the tracepoint is already in
   the list: after the next start it is active and there is no handle that removes it.
No network is used: Deep is built but never started over the network; shutdown is the real Deep.shutdown, the restart is
reduced to what Deep.start does for this purpose (task_handler.open()).
"""
import os
import sys
import traceback

from deep.api import Deep
from deep.api.resource import Resource
from deep.config import ConfigService
from deep.config.tracepoint_config import TracepointConfigService

FILE = os.path.basename(__file__)


def target(x):
    y = x + 1
    return y


LINE = target.__code__.co_firstlineno + 1
UNLIMITED = {'fire_count': '-1', 'fire_period': '0'}


class FakePush:
    def __init__(self):
        self.pushed = []

    def push_snapshot(self, snapshot):
        self.pushed.append(snapshot)


def main():
    cfg = ConfigService({'APP_ROOT': os.path.dirname(os.path.abspath(__file__)), 'NO_TRACE': True},
                        tracepoints=TracepointConfigService())
    cfg.resource = Resource.create()
    deep = Deep(cfg)
    push = FakePush()
    deep.push = push
    deep.trigger_handler._push_service = push

    def settle():
        deep.task_handler.flush()
        deep.task_handler.open()

    def hit():
        push.pushed.clear()
        deep.trigger_handler._is_shutdown = False
        sys.settrace(deep.trigger_handler.trace_call)
        try:
            target(1)
        finally:
            sys.settrace(None)
        return sorted(s.tracepoint.watches[0] for s in push.pushed)

    problems = []

    h_a = deep.register_tracepoint(FILE, LINE, dict(UNLIMITED), ['"a"'])
    settle()
    if hit() != ['"a"']:
        problems.append("a registered: expected it to fire")

    # the real shutdown (we never connected, so we only mark the agent as started)
    deep.started = True
    deep.shutdown()

    handle = None
    try:
        handle = deep.register_tracepoint(FILE, LINE, dict(UNLIMITED), ['"orphan"'])
    except BaseException as e:
        problems.append("register_tracepoint on a shut down agent raised %s (%s a subclass of Exception), no handle "
                        "returned" % (type(e).__name__, "is" if isinstance(e, Exception) else "NOT"))
    try:
        h_a.unregister()
    except BaseException as e:
        problems.append("unregister on a shut down agent raised %s (%s a subclass of Exception)"
                        % (type(e).__name__, "is" if isinstance(e, Exception) else "NOT"))

    # what Deep.start does: accept tasks again; the next update (here: another registration) installs the list
    deep.task_handler.open()
    h_c = deep.register_tracepoint(FILE, LINE, dict(UNLIMITED), ['"c"'])
    settle()
    h_c.unregister()
    if handle is not None:
        handle.unregister()
    settle()
    fired = hit()
    if fired:
        problems.append("every handle the application was given is unregistered, yet these still fire after the "
                        "restart: %s" % fired)

    if problems:
        print("FAIL")
        for problem in problems:
            print(" -", problem)
        return 1
    print("PASS")
    return 0


if __name__ == '__main__':
    sys.exit(main())
