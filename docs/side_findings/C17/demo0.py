"""C17 demo 0 (unmodified tree): a metric / label expression with a nested scope cannot see the locals of the frame.

TriggerContext.evaluate_expression runs eval(expression, frame.f_globals, frame.f_locals).  With separate globals and
locals mappings a generator expression or lambda inside the expression only resolves its free names in the globals, so
`sum(v * factor for v in values)` fails with NameError('factor') although both names are locals of the paused frame
(a debugger evaluating the expression "in the frame" gives 12).  The metric is then reported with 1, and a label
expression of that shape is reported as the text of the NameError.
"""
import inspect
import os
import sys

from deep.api.plugin.metric import MetricProcessor
from deep.api.tracepoint.tracepoint_config import MetricDefinition, LabelExpression
from deep.api.tracepoint.trigger import build_trigger
from deep.config import ConfigService
from deep.processor.trigger_handler import TriggerHandler


class Recorder(MetricProcessor):
    def __init__(self):
        super().__init__()
        self.calls = []

    def counter(self, name, labels, namespace, help_string, unit, value):
        self.calls.append(('counter', name, dict(labels), namespace, help_string, unit, value))

    def gauge(self, name, labels, namespace, help_string, unit, value):
        self.calls.append(('gauge', name, dict(labels), namespace, help_string, unit, value))

    def histogram(self, name, labels, namespace, help_string, unit, value):
        self.calls.append(('histogram', name, dict(labels), namespace, help_string, unit, value))

    def summary(self, name, labels, namespace, help_string, unit, value):
        self.calls.append(('summary', name, dict(labels), namespace, help_string, unit, value))


def target(values, factor):
    expected = sum(v * factor for v in values)      # what the expression is worth in this frame: 12
    done = True                                     # TRACEPOINT LINE
    return expected, done


def line_of(func, text):
    lines, start = inspect.getsourcelines(func)
    for idx, line in enumerate(lines):
        if text in line:
            return start + idx
    raise AssertionError(text)


class NoPush:
    def push_snapshot(self, snapshot):
        pass


def main():
    import logging
    logging.getLogger("deep").setLevel(logging.CRITICAL)
    recorder = Recorder()
    config = ConfigService({})
    config.plugins = [recorder]
    handler = TriggerHandler(config, NoPush())
    metrics = [
        MetricDefinition("weighted", "GAUGE", [LabelExpression("big", None, "any(v > factor for v in values)")],
                         "sum(v * factor for v in values)"),
        # control: the same value without a nested scope
        MetricDefinition("plain", "GAUGE", [], "expected"),
    ]
    trigger = build_trigger("tp-1", os.path.basename(__file__), line_of(target, "TRACEPOINT LINE"),
                            {'snapshot': 'no_collect'}, [], metrics)
    handler.new_config([trigger])
    sys.settrace(handler.trace_call)
    try:
        target([1, 2, 3], 2)
    finally:
        sys.settrace(None)

    print(recorder.calls)
    by_name = {c[1]: c for c in recorder.calls}
    ok = True
    if by_name.get("plain", [None] * 7)[6] != 12:
        print("control metric 'plain' should be 12")
        ok = False
    weighted = by_name.get("weighted")
    if weighted is None or weighted[6] != 12:
        print("metric 'weighted': expression sum(v * factor for v in values) is 12 in the frame, reported %s"
              % (None if weighted is None else weighted[6]))
        ok = False
    if weighted is None or weighted[2] != {"big": "True"}:
        print("metric 'weighted': label big = any(v > factor for v in values) is True in the frame, reported %s"
              % (None if weighted is None else weighted[2]))
        ok = False
    print("PASS" if ok else "FAIL")
    return 0 if ok else 1


if __name__ == '__main__':
    sys.exit(main())
