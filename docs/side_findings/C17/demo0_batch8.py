"""
C17 side finding on the UNMODIFIED tree: the fire window (window_start / window_end) cannot be configured through
any public path, although LocationAction implements it.

A metric tracepoint arrives from the service (poll response -> convert_response) with a fire window that closed an
hour ago - given once as epoch milliseconds and once as epoch nanoseconds, as the unit is not pinned down anywhere
(TracepointWindow.in_window documents ms, LocationAction.can_trigger passes the trigger ts, which is ns). A hit now is
outside the window under either reading, so it is not a permitted hit and nothing should be reported. build_trigger /
build_metric_action drop the two arguments, so the metric is reported all the same.

Exit 0 / PASS when nothing is reported, exit 1 / FAIL when the metric is reported outside its window.
"""
import logging
import sys
import time

# noinspection PyUnresolvedReferences
from deepproto.proto.tracepoint.v1.tracepoint_pb2 import TracePointConfig, Metric, MetricType

import deep.logging
from deep.api.plugin.metric import MetricProcessor
from deep.api.resource import Resource
from deep.config import ConfigService
from deep.config.tracepoint_config import TracepointConfigService
from deep.grpc import convert_response
from deep.processor.trigger_handler import TriggerHandler


class Recorder(MetricProcessor):
    def __init__(self, name):
        super().__init__(name)
        self.calls = []

    def counter(self, name, labels, namespace, help_string, unit, value):
        self.calls.append(('counter', name))

    def gauge(self, name, labels, namespace, help_string, unit, value):
        self.calls.append(('gauge', name))

    def histogram(self, name, labels, namespace, help_string, unit, value):
        self.calls.append(('histogram', name))

    def summary(self, name, labels, namespace, help_string, unit, value):
        self.calls.append(('summary', name))


class Push:
    def push_snapshot(self, *args, **kwargs):
        pass


SOURCE = """
def target():
    amount = 7
    yield 1
    yield 2
"""
HIT_LINE = 4  # 'yield 1'


def main():
    deep.logging.init()
    logging.getLogger('deep').setLevel(logging.CRITICAL)
    now_ms = int(time.time() * 1000)
    hour_ms = 3_600_000
    common = {'fire_count': '-1', 'fire_period': '0', 'snapshot': 'no_collect'}
    response = [
        TracePointConfig(ID='tp-ms', path='demo_window.py', line_number=HIT_LINE,
                         args=dict(common, window_start=str(now_ms - 2 * hour_ms), window_end=str(now_ms - hour_ms)),
                         metrics=[Metric(name='closed_window_ms', type=MetricType.COUNTER)]),
        TracePointConfig(ID='tp-ns', path='demo_window.py', line_number=HIT_LINE,
                         args=dict(common, window_start=str((now_ms - 2 * hour_ms) * 1_000_000),
                                   window_end=str((now_ms - hour_ms) * 1_000_000)),
                         metrics=[Metric(name='closed_window_ns', type=MetricType.COUNTER)]),
    ]
    triggers = convert_response(response)

    config = ConfigService({}, tracepoints=TracepointConfigService())
    config.resource = Resource.create()
    recorder = Recorder('recorder')
    config.plugins = [recorder]
    handler = TriggerHandler(config, Push())
    handler.new_config(triggers)

    scope = {}
    exec(compile(SOURCE, '/app/demo_window.py', 'exec'), scope)
    gen = scope['target']()
    next(gen)
    frame = gen.gi_frame
    assert frame.f_lineno == HIT_LINE
    handler.trace_call(frame, 'line', None)

    for trigger in triggers:
        for action in trigger.actions:
            print("action %s config keys: %s" % (action.id, sorted(action.config.keys())))
    if not recorder.calls:
        print("PASS: nothing reported outside the fire window")
        return 0
    print("reported: %s" % recorder.calls)
    print("FAIL: metrics reported although the fire window of the tracepoint closed an hour ago "
          "(window_start / window_end are dropped on the way to the action)")
    return 1


if __name__ == '__main__':
    sys.exit(main())
