"""
C10 demo 0 (UNMODIFIED tree): an expression with a nested scope does not see the locals of the paused frame.

``any(v > limit for v in values)`` is a valid expression at the tracepoint line (the program itself computes it on that
very line). As a watch / condition / log field it is evaluated with eval(expression, f_globals, f_locals): the generator
expression (likewise a lambda) is a nested scope, which resolves ``limit`` in the globals given to eval and never in
the separate locals mapping - so the watch fails with NameError, the condition counts as failed (the tracepoint never
fires), and if the module has a global of the same name the expression silently uses that one.

Run: PYTHONPATH=<tree>/src /venv/bin/python demo0.py   (prints FAIL, exit 1, on the unmodified tree)
"""
import os
import sys

from deep.api.plugin import TracepointLogger
from deep.api.resource import Resource
from deep.api.tracepoint.constants import WATCHES, FRAME_TYPE, NO_FRAME_TYPE
from deep.api.tracepoint.trigger import LineLocation, Location, LocationAction, Trigger
from deep.config import ConfigService
from deep.processor.trigger_handler import TriggerHandler
from deep.push.push_service import PushService


class Push(PushService):
    def __init__(self):
        super().__init__(None, None)
        self.pushed = []

    def push_snapshot(self, snapshot):
        self.pushed.append(snapshot)


class Logger(TracepointLogger):
    def log_tracepoint(self, log_msg, tp_id, ctx_id):
        pass


class Config(ConfigService):
    def __init__(self):
        super().__init__({})
        self.logger = Logger()

    @property
    def tracepoint_logger(self):
        return self.logger

    @property
    def resource(self):
        return Resource.get_empty()


threshold = 1000  # a module global with the name of a local of check()


def check(values, limit, threshold):
    found = any(v > limit for v in values) and any(v > threshold for v in values)  # TRACEPOINT
    return found


def tracepoint_line():
    import inspect
    lines, start = inspect.getsourcelines(check)
    for offset, text in enumerate(lines):
        if 'TRACEPOINT' in text:
            return start + offset
    raise AssertionError("no tracepoint line")


def main():
    config = Config()
    push = Push()
    handler = TriggerHandler(config, push)
    location = LineLocation(os.path.basename(__file__), tracepoint_line(), Location.Position.START)
    plain = LocationAction("tp-watch", None, {WATCHES: ['any(v > limit for v in values)',
                                                         'any(v > threshold for v in values)'],
                                              FRAME_TYPE: NO_FRAME_TYPE}, LocationAction.ActionType.Snapshot)
    gated = LocationAction("tp-condition", "any(v > limit for v in values)", {FRAME_TYPE: NO_FRAME_TYPE},
                           LocationAction.ActionType.Snapshot)
    handler.new_config([Trigger(location, [plain, gated])])

    sys.settrace(handler.trace_call)
    try:
        # in the program both generator expressions are True on the tracepoint line
        result = check([1, 5, 9], 3, 2)
    finally:
        sys.settrace(None)
    assert result is True

    problems = []
    by_tp = {s.tracepoint.id: s for s in push.pushed}
    if 'tp-condition' not in by_tp:
        problems.append("condition 'any(v > limit for v in values)' is True in the frame, but the tracepoint did not fire")
    if 'tp-watch' not in by_tp:
        problems.append("no snapshot for the watches")
    else:
        snapshot = by_tp['tp-watch']
        for watch in snapshot.watches:
            if watch.error is not None:
                problems.append("watch %s: error %r" % (watch.expression, watch.error))
            elif snapshot.var_lookup[watch.result.vid].value != 'True':
                problems.append("watch %s: value %r, the program computes True (the module global was used, not the "
                                "local)" % (watch.expression, snapshot.var_lookup[watch.result.vid].value))

    if problems:
        print("FAIL")
        for problem in problems:
            print("  " + problem)
        return 1
    print("PASS")
    return 0


if __name__ == '__main__':
    import logging

    logging.disable(logging.CRITICAL)  # keep the output to PASS / FAIL
    sys.exit(main())
