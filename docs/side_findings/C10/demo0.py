"""
C10 demo 0: findings on the UNMODIFIED tree.

Run: PYTHONPATH=<tree>/src /venv/bin/python demo0.py
Prints FAIL (exit 1) on the unmodified tree.

 A. a watch that fails with an exception whose __str__ raises costs the whole snapshot (not 'that expression only').
 B. a condition that reads a local from inside a generator expression / lambda fails with NameError although the name
    is visible at that line, so a hit whose condition is true (as python evaluates it at that line) is not collected.
"""
import inspect
import logging as pylog
import os
import sys

from deep.api.plugin import TracepointLogger
from deep.api.resource import Resource
from deep.api.tracepoint.trigger import build_trigger
from deep.config import ConfigService
from deep.processor.trigger_handler import TriggerHandler
from deep.push.push_service import PushService

pylog.disable(pylog.CRITICAL)

FILE = os.path.basename(__file__)


class Push(PushService):
    def __init__(self):
        super().__init__(None, None)
        self.pushed = []

    def push_snapshot(self, snapshot):
        self.pushed.append(snapshot)


class Config(ConfigService):
    def __init__(self):
        super().__init__({})

    @property
    def tracepoint_logger(self):
        return TracepointLogger()

    @property
    def resource(self):
        return Resource.get_empty()


class Mute(Exception):
    def __str__(self):
        raise RuntimeError("no text for you")


def fail_mute():
    raise Mute()


def target(values, limit):
    total = 0
    inline = any(v > limit for v in values)  # what the condition of case B gives when written at this line
    total += len(values)  # TRACEPOINT
    return total, inline


def line_of(func, marker):
    lines, start = inspect.getsourcelines(func)
    for idx, text in enumerate(lines):
        if marker in text:
            return start + idx
    raise AssertionError("marker not found")


def run(args, watches):
    push = Push()
    handler = TriggerHandler(Config(), push)
    full_args = {'fire_count': '-1', 'fire_period': '0'}
    full_args.update(args)
    handler.new_config([build_trigger("tp-1", FILE, line_of(target, "# TRACEPOINT"), full_args, watches, [])])
    old = sys.gettrace()
    sys.settrace(handler.trace_call)
    try:
        result = target([1, 5], 3)
    finally:
        sys.settrace(old)
    return push.pushed, result


def main():
    problems = []

    # A
    pushed, _ = run({}, ['fail_mute()', 'limit'])
    if len(pushed) != 1:
        problems.append("A: watch raising an exception whose __str__ raises: %d snapshots instead of 1 with an error "
                        "result for that watch" % len(pushed))
    else:
        errors = [w.error for w in pushed[0].watches]
        if errors[0] is None or errors[1] is not None:
            problems.append("A: watch results %s" % errors)

    # B
    pushed, (_, inline) = run({'condition': 'any(v > limit for v in values)'}, [])
    if inline is not True:
        raise AssertionError("demo is broken")
    if len(pushed) != 1:
        problems.append("B: condition 'any(v > limit for v in values)' is True at that line, %d snapshots" % len(pushed))

    if problems:
        for p in problems:
            print(p)
        print("FAIL")
        return 1
    print("PASS")
    return 0


if __name__ == '__main__':
    sys.exit(main())
