"""
C10 demo 0 (unmodified tree): an expression sees the locals of the paused frame only at its top level.

Conditions, watches, log fields and metric expressions are evaluated with eval(expression, f_globals, f_locals). Code
nested inside the expression - the body of a generator expression, a lambda (e.g. a sort key) - is a function scope of
its own: python resolves its free names in the *globals* given to eval, never in the locals mapping. So a boolean
condition over two locals like `any(v > limit for v in values)` raises NameError('limit') although `limit` is visible
at that line, the hit is rejected and nothing is collected; the same text as a watch / log field / metric expression
yields an error result instead of the value.

Run: PYTHONPATH=<tree>/src /venv/bin/python demo0.py   (prints FAIL on the unmodified tree)
"""
import logging
import os
import sys

# noinspection PyUnresolvedReferences
from deepproto.proto.tracepoint.v1.tracepoint_pb2 import TracePointConfig as PbTracePointConfig

from deep.api.resource import Resource
from deep.config import ConfigService
from deep.config.tracepoint_config import TracepointConfigService
from deep.grpc import convert_response
from deep.processor.trigger_handler import TriggerHandler
from deep.push.push_service import PushService

logging.disable(logging.CRITICAL)

THIS_FILE = os.path.basename(__file__)


class RecordingPush(PushService):
    def __init__(self):
        super().__init__(None, None)
        self.pushed = []

    def push_snapshot(self, snapshot):
        self.pushed.append(snapshot)


def target(values, limit):
    over = any(v > limit for v in values)  # the program itself can write this
    return over  # TRACEPOINT LINE


TP_LINE = target.__code__.co_firstlineno + 2

failures = []


def case(condition, watches, expected_snapshots):
    config = ConfigService({}, tracepoints=TracepointConfigService())
    config.resource = Resource.get_empty()
    push = RecordingPush()
    handler = TriggerHandler(config, push)
    args = {'fire_count': '-1', 'fire_period': '0'}
    if condition is not None:
        args['condition'] = condition
    handler.new_config(convert_response([PbTracePointConfig(ID="tp", path=THIS_FILE, line_number=TP_LINE, args=args,
                                                            watches=watches)]))
    old = sys.gettrace()
    sys.settrace(handler.trace_call)
    try:
        target([1, 5, 9], 4)
    finally:
        sys.settrace(old)
    print("condition %-40r -> %d snapshot(s), expected %d" % (condition, len(push.pushed), expected_snapshots))
    if len(push.pushed) != expected_snapshots:
        failures.append("condition %r" % condition)
    for snapshot in push.pushed:
        for watch in snapshot.watches:
            print("   watch %-40r -> error=%r" % (watch.expression, watch.error))
            if watch.error is not None:
                failures.append("watch %r: %s" % (watch.expression, watch.error))


# true conditions over the locals `values` and `limit` (the target computes the first one itself, it is True)
case("over", [], 1)
case("any(v > limit for v in values)", [], 1)
case("len(list(filter(lambda v: v > limit, values))) == 2", [], 1)
# the same as watches: an error result although the expression is valid at that line
case(None, ["sorted(values, key=lambda v: abs(v - limit))", "sum(v for v in values if v > limit)"], 1)

if failures:
    print("FAIL")
    for failure in failures:
        print("  -", failure)
    sys.exit(1)
print("PASS")
sys.exit(0)
