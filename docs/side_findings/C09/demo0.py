"""
C09 demo 0 (UNMODIFIED tree): flush gives up after 10 seconds.

TaskHandler.flush() waits with a fixed timeout of 10s. A task that was accepted before the flush and needs longer than
that (a send to a service that answers slowly) is still running when flush returns normally.

Run: PYTHONPATH=<tree>/src /venv/bin/python demo0.py   (takes ~10s)
"""
import os
import sys
import time

from deep.task import TaskHandler


def main():
    handler = TaskHandler()
    finished = []

    def slow_send():
        time.sleep(12)
        finished.append(True)

    future = handler.submit_task(slow_send)
    started = time.time()
    handler.flush()
    took = time.time() - started
    if not future.done():
        print("FAIL")
        print(" - flush returned normally after %.1fs while a previously accepted task was still running" % took)
        return 1
    print("PASS")
    return 0


if __name__ == '__main__':
    code = main()
    sys.stdout.flush()
    os._exit(code)
