"""
C09 demo 0 (UNMODIFIED tree): a snapshot that is handed over for delivery is never sent when its tracepoint configures a
collection limit (MAX_STRING_LENGTH, MAX_COLLECTION_SIZE, MAX_VARIABLES, MAX_VAR_DEPTH, MAX_TP_PROCESS_TIME) as a
tracepoint argument - the way limits arrive in production (text in the `args` map of a poll response, or the args of
Deep.register_tracepoint).

build_snapshot_action() stores the limit as an int in the action config; LocationAction.tracepoint copies the action
config into TracePointConfig.args; the protobuf TracePointConfig.args is a map<string, string>, so convert_snapshot()
fails (TypeError, logged, returns None) and PushService._push_task returns without sending. Every snapshot of such a
tracepoint is collected, handed over, accepted - and dropped on the worker.

Run: PYTHONPATH=<tree>/src /venv/bin/python demo0.py      (prints FAIL / exit 1 on the unmodified tree)
     add --fork for the second observation (a forked child process, takes 10 s)
"""
import logging
import os
import sys
import threading

logging.disable(logging.CRITICAL)

# noinspection PyUnresolvedReferences
from deepproto.proto.tracepoint.v1.tracepoint_pb2 import TracePointConfig as PbTracePointConfig  # noqa: E402

from deep.api.resource import Resource  # noqa: E402
from deep.config import ConfigService  # noqa: E402
from deep.grpc import convert_response  # noqa: E402
from deep.processor.trigger_handler import TriggerHandler  # noqa: E402
from deep.push.push_service import PushService  # noqa: E402
from deep.task import TaskHandler  # noqa: E402


class FakeChannel:
    def __init__(self):
        self.sends = []

    def unary_unary(self, *args, **kwargs):
        def send(request, **kw):
            self.sends.append((request.tracepoint.ID, threading.get_ident()))

        return send


class FakeGrpc:
    def __init__(self):
        self.channel = FakeChannel()

    def metadata(self):
        return []


class CountingPush(PushService):
    def __init__(self, grpc, task_handler):
        super().__init__(grpc, task_handler)
        self.handed_over = []

    def push_snapshot(self, snapshot):
        self.handed_over.append(snapshot.tracepoint.id)
        super().push_snapshot(snapshot)


def application_function(value):
    result = value * 2  # line of tracepoint 'plain'
    result = result + 1  # line of tracepoint 'limited'
    return result


first_line = application_function.__code__.co_firstlineno + 1
this_file = os.path.basename(__file__)

# the tracepoints as they arrive from the service: protobuf, all arguments are text
response = [
    PbTracePointConfig(ID='plain', path=this_file, line_number=first_line, args={'fire_count': '1'}),
    PbTracePointConfig(ID='limited', path=this_file, line_number=first_line + 1,
                       args={'fire_count': '1', 'MAX_STRING_LENGTH': '64'}),
]

grpc = FakeGrpc()
tasks = TaskHandler()
push = CountingPush(grpc, tasks)
config = ConfigService({'APP_ROOT': os.path.dirname(os.path.abspath(__file__))})
config.resource = Resource.create()
handler = TriggerHandler(config, push)
handler.new_config(convert_response(response))
handler.start()
try:
    application_function(21)
finally:
    handler.shutdown()
tasks.flush()

sent = sorted(tp_id for tp_id, _ in grpc.channel.sends)
print("handed over for delivery:", sorted(push.handed_over))
print("sent                    :", sent)
problems = []
if not (sorted(push.handed_over) == ['limited', 'plain'] and sent == ['limited', 'plain']):
    problems.append("the snapshot of the tracepoint with a MAX_STRING_LENGTH argument was handed over and accepted, "
                    "but never sent")

# ---------------------------------------------------------------- second observation: a forked worker process
# deep.start() in the parent of a pre-fork server (gunicorn --preload, uwsgi, multiprocessing 'fork'): once both pool
# workers exist, the child inherits an executor that believes it still has its two threads - no thread exists in the
# child, tasks are accepted and never run, flush() sits out its 10 s and returns with the accepted task not done.
if '--fork' in sys.argv and hasattr(os, 'fork'):
    import time
    import warnings

    warnings.simplefilter('ignore')
    forked = TaskHandler()
    forked.submit_task(time.sleep, 0.1)
    forked.submit_task(time.sleep, 0.1)
    time.sleep(0.4)
    read_end, write_end = os.pipe()
    pid = os.fork()
    if pid == 0:
        ran = []
        forked.submit_task(lambda: ran.append(1))
        begin = time.time()
        forked.flush()
        os.write(write_end, ("%d %.1f" % (len(ran), time.time() - begin)).encode())
        os._exit(0)
    os.waitpid(pid, 0)
    ran_count, flush_time = os.read(read_end, 100).decode().split()
    print("forked child: accepted task ran %s time(s), flush took %s s" % (ran_count, flush_time))
    if ran_count != '1':
        problems.append("in a forked child an accepted task never runs; flush returns (after its 10 s) without it")

if problems:
    print("FAIL")
    for problem in problems:
        print(" -", problem)
    sys.exit(1)
print("PASS")
sys.exit(0)
