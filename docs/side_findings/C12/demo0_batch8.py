"""
C12 demo 0: things the UNMODIFIED tree already does (prints FAIL / exits 1 there).

 A. a poll response the agent cannot understand (a response_type it does not know - proto3 enums are open, a newer
    service can send one) is taken for an UPDATE: the last good configuration is thrown away and the hash is reset.
 B. a tracepoint whose path has a directory part ("src/app/demo0.py", the way a service that knows the repository
    layout sends it) is installed but never acted on: the handler compares the BASENAME of the running file with the
    whole configured path.
 C. POLL_TIMER = 0 (DEEP_POLL_TIMER=0): the timer thread dies on its first wait, polling does not continue.
"""
import os
import sys
import threading
import time

# noinspection PyUnresolvedReferences
from deepproto.proto.poll.v1.poll_pb2 import PollResponse, ResponseType
# noinspection PyUnresolvedReferences
from deepproto.proto.tracepoint.v1.tracepoint_pb2 import TracePointConfig

import deep.logging
from deep.api.resource import Resource
from deep.config import ConfigService
from deep.config.tracepoint_config import TracepointConfigService
from deep.poll import LongPoll
from deep.processor.trigger_handler import TriggerHandler
from deep.task import TaskHandler

THIS_FILE = os.path.basename(__file__)
THIS_DIR = os.path.dirname(os.path.abspath(__file__))


def target(a, b):
    first = a + b          # LINE_ONE
    second = first * 2     # LINE_TWO
    return second


def line_of(marker):
    with open(__file__) as source:
        for number, text in enumerate(source, start=1):
            if text.rstrip().endswith("# " + marker):
                return number
    raise AssertionError(marker)


class FakeChannel:
    def __init__(self):
        self.script = []
        self.requests = []

    def unary_unary(self, *_, **__):
        def call(request, **_kwargs):
            self.requests.append(request)
            if not self.script:
                return PollResponse(response_type=ResponseType.NO_CHANGE)
            return self.script.pop(0)

        return call


class FakeGrpc:
    def __init__(self):
        self.channel = FakeChannel()

    @staticmethod
    def metadata():
        return []


class CollectingPush:
    def __init__(self):
        self.pushed = []

    def push_snapshot(self, snapshot):
        self.pushed.append(snapshot)


def agent(custom=None):
    settings = {'NO_TRACE': True, 'APP_ROOT': THIS_DIR}
    settings.update(custom or {})
    config = ConfigService(settings, tracepoints=TracepointConfigService())
    config.resource = Resource.create(attributes={"demo": "c12"})
    deep.logging.init(config)
    tasks = TaskHandler()
    config.set_task_handler(tasks)
    grpc = FakeGrpc()
    push = CollectingPush()
    handler = TriggerHandler(config, push)
    return config, tasks, grpc, push, handler, LongPoll(config, grpc)


def settle(tasks):
    tasks.flush()
    tasks.open()


def installed(handler):
    return sorted({action.id for trigger in handler._tp_config for action in trigger.actions})


failures = []


def expect(what, actual, expected):
    ok = actual == expected
    print("%-74s %s   (got %s, expected %s)" % (what, "ok" if ok else "VIOLATED", actual, expected))
    if not ok:
        failures.append(what)


LIMITS = {'fire_count': '-1', 'fire_period': '0'}

# --- A: an unintelligible response ------------------------------------------------------------------------------------
config, tasks, grpc, push, handler, poll = agent()
grpc.channel.script.append(PollResponse(ts_nanos=1, current_hash="hash-1", response_type=ResponseType.UPDATE, response=[
    TracePointConfig(ID="tp-A", path=THIS_FILE, line_number=line_of("LINE_ONE"), args=dict(LIMITS))]))
poll.poll()
settle(tasks)
expect("A. after config 1: installed", installed(handler), ["tp-A"])
grpc.channel.script.append(PollResponse(ts_nanos=2, response_type=7))  # neither NO_CHANGE (0) nor UPDATE (1)
poll.poll()
settle(tasks)
expect("A. after a response of unknown type: installed (last good config)", installed(handler), ["tp-A"])
poll.poll()
expect("A. hash reported by the next poll", grpc.channel.requests[-1].current_hash, "hash-1")

# --- B: a path with a directory part ----------------------------------------------------------------------------------
config, tasks, grpc, push, handler, poll = agent()
grpc.channel.script.append(PollResponse(ts_nanos=1, current_hash="hash-1", response_type=ResponseType.UPDATE, response=[
    TracePointConfig(ID="tp-basename", path=THIS_FILE, line_number=line_of("LINE_ONE"), args=dict(LIMITS)),
    TracePointConfig(ID="tp-full-path", path=os.path.join(THIS_DIR, THIS_FILE), line_number=line_of("LINE_TWO"),
                     args=dict(LIMITS)),
]))
poll.poll()
settle(tasks)
expect("B. installed", installed(handler), ["tp-basename", "tp-full-path"])


def traced():
    sys.settrace(handler.trace_call)
    try:
        target(1, 2)
    finally:
        sys.settrace(None)


thread = threading.Thread(target=traced)
thread.start()
thread.join(30)
expect("B. tracepoints acted on when both lines ran", sorted({s.tracepoint.id for s in push.pushed}),
       ["tp-basename", "tp-full-path"])

# --- C: POLL_TIMER = 0 ------------------------------------------------------------------------------------------------
config, tasks, grpc, push, handler, poll = agent({'POLL_TIMER': '0.2'})
poll.start()
time.sleep(1)
polls_with_interval = len(grpc.channel.requests)
poll.shutdown()
expect("C. control, POLL_TIMER=0.2: polled more than once in 1s", polls_with_interval > 1, True)
config, tasks, grpc, push, handler, poll = agent({'POLL_TIMER': '0'})
errors = []
threading.excepthook = lambda args: errors.append(args.exc_type.__name__)
poll.start()
time.sleep(1)
expect("C. POLL_TIMER=0: poll timer thread alive after 1s", poll.timer.thread.is_alive(), True)
expect("C. POLL_TIMER=0: polled more than once in 1s", len(grpc.channel.requests) > 1, True)
if errors:
    print("   (the timer thread died with %s)" % errors)
if poll.timer.thread.is_alive():
    poll.shutdown()

if failures:
    print("FAIL")
    sys.exit(1)
print("PASS")
sys.exit(0)
