"""
demo0: the UNMODIFIED tree can end up acting on an older configuration than the one whose hash it reports.

update_listeners() reads the latest configuration at its top (new_config = self._tracepoint_config) and hands it to the
trigger handler some statements later. With two workers, task 1 can read cfg1, be preempted, task 2 (for cfg2) runs
to completion and installs cfg2, then task 1 resumes and installs cfg1. Nothing follows, so the handler stays on cfg1
while current_hash is h2.

The preemption between the read and the hand-over is made deterministic here with a listener that is registered
before the trigger handler's listener and that blocks on its first call only.
"""
import sys
import threading

from deep.api.tracepoint.trigger import build_trigger
from deep.config import ConfigService
from deep.config.tracepoint_config import TracepointConfigService, ConfigUpdateListener
from deep.processor.trigger_handler import TriggerHandler
from deep.task import TaskHandler


class Gate(ConfigUpdateListener):
    def __init__(self):
        self.calls = 0
        self.entered = threading.Event()
        self.release = threading.Event()

    def config_change(self, ts, old_hash, current_hash, old_config, new_config):
        self.calls += 1
        if self.calls == 1:
            self.entered.set()
            self.release.wait(10)


def ids(triggers):
    return sorted(a.id for t in triggers for a in t.actions)


def main():
    tracepoints = TracepointConfigService()
    gate = Gate()
    tracepoints.add_listener(gate)
    config = ConfigService({'NO_TRACE': True}, tracepoints=tracepoints)
    tasks = TaskHandler()
    config.set_task_handler(tasks)
    handler = TriggerHandler(config, None)

    cfg1 = [build_trigger("tp-old", "some_file.py", 10, {}, [], [])]
    cfg2 = [build_trigger("tp-new", "some_file.py", 20, {}, [], [])]

    tracepoints.update_new_config(1, "h1", cfg1)
    assert gate.entered.wait(10)          # task 1 has read cfg1 and is now 'preempted'
    tracepoints.update_new_config(2, "h2", cfg2)
    # let task 2 run to completion on the second worker
    for _ in range(1000):
        if ids(handler._tp_config) == ["tp-new"]:
            break
        threading.Event().wait(0.005)
    gate.release.set()                    # task 1 resumes
    tasks.flush()

    acted_on = ids(handler._tp_config)
    print("reported hash:", tracepoints.current_hash, "latest config:", ids(tracepoints.current_config),
          "handler acts on:", acted_on)
    if tracepoints.current_hash == "h2" and acted_on == ["tp-new"]:
        print("PASS")
        return 0
    print("FAIL: the agent settled on an older configuration than the one it reports")
    return 1


if __name__ == '__main__':
    sys.exit(main())
