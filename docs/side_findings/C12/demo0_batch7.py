"""
C12 demo 0 (UNMODIFIED tree): a configuration that arrives while the task handler is closed is recorded (hash and
config) but never installed; after a restart of the agent the new hash is reported, the service answers NO_CHANGE
for ever, and the agent keeps acting on the older configuration.

End to end with the real Deep object; only the gRPC poll stub is replaced by a scripted service.

  Deep.start()          -> poll: UPDATE h1 [tp1]                      tp1 installed
  Deep.shutdown()       -> trigger handler off, task_handler.flush() closes the handler and waits for a slow
                           pending task (e.g. a snapshot upload); the poll timer is only stopped AFTER that.
     ... in that window the user changes the tracepoints, the timer polls: UPDATE h2 [tp2]
         update_new_config records h2/[tp2], submit_task raises IllegalStateException (a BaseException)
  Deep.start()          -> poll reports h2 -> NO_CHANGE -> nothing installs [tp2]

Run: PYTHONPATH=<tree>/src /venv/bin/python demo0.py   -> prints PASS (exit 0) or FAIL (exit 1)
"""
import os
import sys
import threading
import time

# noinspection PyUnresolvedReferences
from deepproto.proto.poll.v1.poll_pb2 import PollResponse, ResponseType
# noinspection PyUnresolvedReferences
from deepproto.proto.tracepoint.v1.tracepoint_pb2 import TracePointConfig

import deep.poll.poll as poll_module
from deep.api.deep import Deep
from deep.config import ConfigService
from deep.config.tracepoint_config import TracepointConfigService

THIS_FILE = os.path.basename(__file__)


def target(val):
    doubled = val * 2  # TP1-HERE
    result = doubled + 1  # TP2-HERE
    return result


def line_of(marker):
    with open(__file__) as f:
        for no, text in enumerate(f, 1):
            if text.rstrip().endswith("# " + marker):
                return no
    raise RuntimeError("marker not found")


def tp(tp_id, marker):
    return TracePointConfig(ID=tp_id, path=THIS_FILE, line_number=line_of(marker),
                            args={"fire_count": "-1", "fire_period": "0"})


class Service:
    """The scripted tracepoint service: answers NO_CHANGE when the client reports the latest hash."""

    def __init__(self):
        self.latest_hash = "h1"
        self.latest = [tp("tp1", "TP1-HERE")]
        self.log = []

    def poll(self, request, metadata=None):
        if request.current_hash == self.latest_hash:
            self.log.append((request.current_hash, "NO_CHANGE"))
            return PollResponse(ts_nanos=time.time_ns(), current_hash=self.latest_hash,
                                response_type=ResponseType.NO_CHANGE)
        self.log.append((request.current_hash, "UPDATE " + self.latest_hash))
        return PollResponse(ts_nanos=time.time_ns(), current_hash=self.latest_hash, response=self.latest,
                            response_type=ResponseType.UPDATE)


SERVICE = Service()


class FakeStub:
    def __init__(self, channel):
        pass

    def poll(self, request, metadata=None):
        return SERVICE.poll(request, metadata=metadata)


def run_target(val):
    t = threading.Thread(target=target, args=(val,))
    t.start()
    t.join(10)


def main():
    poll_module.PollConfigStub = FakeStub
    config = ConfigService({"SERVICE_URL": "localhost:1", "SERVICE_SECURE": "False", "POLL_TIMER": 0.2},
                           tracepoints=TracepointConfigService())
    agent = Deep(config)
    pushed = []
    agent.push.push_snapshot = lambda snapshot: pushed.append(snapshot.tracepoint.id)

    agent.start()
    agent.task_handler._pool.submit(lambda: None).result()
    time.sleep(0.3)
    run_target(1)
    if pushed != ["tp1"]:
        print("FAIL (setup): tp1 should fire, got", pushed)
        return 1
    del pushed[:]

    # a slow task is pending when we shut down (think: a snapshot upload to a slow service); while flush() waits for
    # it the user replaces tp1 by tp2
    def slow_upload():
        time.sleep(0.3)
        SERVICE.latest_hash, SERVICE.latest = "h2", [tp("tp2", "TP2-HERE")]
        time.sleep(0.7)

    agent.task_handler.submit_task(slow_upload)
    agent.shutdown()

    # the agent is started again
    agent.start()
    time.sleep(1.0)
    run_target(2)
    installed = sorted(a.id for t in agent.trigger_handler._tp_config for a in t.actions)
    print("polls seen by the service (reported hash, answer):")
    for entry in SERVICE.log:
        print("   ", entry)
    print("latest config of the service : ['tp2'] (hash h2)")
    print("hash the agent reports       : ", config.tracepoints.current_hash)
    print("installed in handler         : ", installed)
    print("fired                        : ", pushed)
    agent.shutdown()
    if installed == ["tp2"] and pushed == ["tp2"]:
        print("PASS")
        return 0
    print("FAIL: the agent reports the hash of a config it never installs and keeps acting on the older config")
    return 1


if __name__ == '__main__':
    code = main()
    sys.stdout.flush()
    os._exit(code)
