"""
C05 demo 0 (UNMODIFIED tree): two observations about the limits when they are configured through the public path.

A. A tracepoint that carries any collection limit (MAX_VARIABLES=..., from the service or register_tracepoint) produces
   a snapshot that cannot be converted to the wire type: build_snapshot_action stores the limit as an int in the action
   config, LocationAction.tracepoint reports the action config as the tracepoint's args, and the protobuf
   TracePointConfig.args is a map<string, string>. convert_snapshot logs "Error converting to protobuf" and returns
   None, PushService._push_task drops the snapshot. So the limits cannot actually be used in production: the snapshot
   that honours them never leaves the process.

B. The rendered log message of a snapshot (snapshot.log_msg) is built from the untruncated str() of the log fields:
   with MAX_STRING_LENGTH=10 and a 500 character local the snapshot carries a 500+ character string.

Run: PYTHONPATH=<tree>/src /venv/bin/python demo0.py   -> prints FAIL / exit 1 on the unmodified tree
"""
import inspect
import logging
import os
import sys

from deep.api.resource import Resource
from deep.config import ConfigService
from deep.config.tracepoint_config import TracepointConfigService
from deep.processor.trigger_handler import TriggerHandler
from deep.push import convert_snapshot
from deep.push.push_service import PushService

logging.disable(logging.CRITICAL)


class Push(PushService):
    def __init__(self):
        super().__init__(None, None)
        self.pushed = []

    def push_snapshot(self, snapshot):
        self.pushed.append(snapshot)


class Config(ConfigService):
    @property
    def resource(self):
        return Resource.get_empty()


def target():
    text = 'x' * 500
    items = list(range(50))
    return text, items  # TRACEPOINT


def line_of(func, marker):
    lines, start = inspect.getsourcelines(func)
    return start + [i for i, text in enumerate(lines) if marker in text][0]


def run(args):
    tracepoints = TracepointConfigService()
    config = Config({}, tracepoints=tracepoints)
    push = Push()
    handler = TriggerHandler(config, push)
    tracepoints.add_custom(os.path.basename(__file__), line_of(target, '# TRACEPOINT'), args, [], [])
    tracepoints.update_listeners(0, None, None, [], [])
    sys.settrace(handler.trace_call)
    try:
        target()
    finally:
        sys.settrace(None)
    assert len(push.pushed) == 1
    return push.pushed[0]


def main():
    failures = []

    # control: without a limit the snapshot converts
    if convert_snapshot(run({})) is None:
        failures.append("control: a snapshot without limits does not convert")

    # A
    for name in ['MAX_VARIABLES', 'MAX_STRING_LENGTH', 'MAX_COLLECTION_SIZE', 'MAX_VAR_DEPTH']:
        snapshot = run({name: '5'})
        converted = convert_snapshot(snapshot)
        print("A: %s='5' -> args reported %r, converted: %s" % (name, snapshot.tracepoint.args.get(name),
                                                               converted is not None))
        if converted is None:
            failures.append("A: the snapshot of a tracepoint with %s=5 cannot be converted for sending, it is dropped"
                            % name)

    # B
    snapshot = run({'MAX_STRING_LENGTH': '10', 'log_msg': 'text is {text}'})
    values = max(len(v.value) for v in snapshot.var_lookup.values())
    print("B: MAX_STRING_LENGTH=10 -> longest variable value %d, log_msg of %d characters"
          % (values, len(snapshot.log_msg)))
    if len(snapshot.log_msg) > 10 + len('[deep] text is '):
        failures.append("B: MAX_STRING_LENGTH=10 but the snapshot's log_msg carries %d characters of the value"
                        % len(snapshot.log_msg))

    if failures:
        for failure in failures:
            print("FINDING:", failure)
        print("FAIL")
        sys.exit(1)
    print("PASS")
    sys.exit(0)


if __name__ == '__main__':
    main()
