"""
C05 demo 0 (UNMODIFIED tree): a string value longer than MAX_STRING_LENGTH.

truncate_string() cuts with `string[:max_length]`, where `string` is whatever str(value) returned. str() accepts an
instance of a str SUBCLASS from __str__ and passes it on as it is, so the slice runs the subclass' own __getitem__.
A subclass whose slices are not plain prefixes (here: it marks a cut with a trailing note, a minimal stand-in for
"rich"/"safe"/"lazy" text types) puts more than MAX_STRING_LENGTH characters into the snapshot.

Run: PYTHONPATH=<tree>/src /venv/bin/python demo0.py   (prints FAIL, exit 1, on the unmodified tree)
"""
import sys

from deep.processor.variable_set_processor import VariableSetProcessor, VariableCacheProvider, VariableProcessorConfig


class NotedText(str):
    """Text that tells the reader when only a part of it is shown."""

    def __getitem__(self, item):
        part = str.__getitem__(self, item)
        if len(part) < len(self):
            return part + " [%d more characters]" % (len(self) - len(part))
        return part


class Document:
    def __init__(self, body):
        self.body = NotedText(body)

    def __str__(self):
        return self.body


def main():
    limit = 10
    lookup = {}
    processor = VariableSetProcessor(lookup, VariableCacheProvider(), VariableProcessorConfig(max_string_length=limit))
    var_id, _ = processor.process_variable('doc', Document("lorem ipsum " * 50))
    variable = lookup[var_id.vid]
    if len(variable.value) > limit:
        print("the value of 'doc' has %s characters (%r), MAX_STRING_LENGTH is %s" % (
            len(variable.value), variable.value, limit))
        print("FAIL")
        return 1
    print("PASS")
    return 0


if __name__ == '__main__':
    sys.exit(main())
