"""
C05 demo 0 (unmodified tree) - with FRAME_TYPE 'all_frame' the budget is spent frame by frame, not breadth first.

The variables of all frames are collected into one snapshot with one budget, but each frame is searched to its full
depth before the next frame is started. One large structure in the innermost frame uses up the budget, and the own
locals of the calling frame (depth 1 of that frame) are not recorded at all although variables at depth 2 and 3 of
the innermost frame are.

Run: PYTHONPATH=<tree>/src /venv/bin/python demo0.py
"""
import sys
import time

from deep.processor.frame_collector import FrameCollector, FrameCollectorContext
from deep.processor.variable_set_processor import VariableProcessorConfig, VariableCacheProvider

MAX_VARIABLES = 12


class Context(FrameCollectorContext):
    @property
    def max_tp_process_time(self):
        return 10_000_000

    @property
    def collection_config(self):
        return VariableProcessorConfig(max_variables=MAX_VARIABLES)

    @property
    def ts(self):
        return time.time_ns()

    def should_collect_vars(self, current_frame_index):
        # FRAME_TYPE all_frame
        return True

    def is_app_frame(self, filename):
        return True, None


class Item:
    def __init__(self, n):
        self.n = n
        self.label = 'item %d' % n


result = {}


def probe():
    frames, lookup = FrameCollector(Context(), sys._getframe(1)).collect({}, VariableCacheProvider())
    result['frames'] = frames
    result['lookup'] = lookup


def inner():
    table = [Item(300000 + i) for i in range(8)]
    probe()
    return table


def outer():
    user = 'the user'
    request = 'the request'
    return inner(), user, request


outer()

frames = result['frames']
lookup = result['lookup']
inner_frame, outer_frame = frames[0], frames[1]
print("variables in snapshot :", len(lookup), "(limit %d plus the one in progress)" % MAX_VARIABLES)
print("inner() frame locals  :", [v.name for v in inner_frame.variables])
print("outer() frame locals  :", [v.name for v in outer_frame.variables])
deeper = [var.type for var in lookup.values() if len(var.children) > 0]
print("variables with children recorded:", deeper)

if outer_frame.method_name != 'outer':
    print("unexpected frame", outer_frame.method_name)
    sys.exit(2)

if len(outer_frame.variables) == 0 and len(deeper) > 0:
    print("the locals of outer() were crowded out by the contents of one structure of inner()")
    print("FAIL")
    sys.exit(1)
print("PASS")
sys.exit(0)
