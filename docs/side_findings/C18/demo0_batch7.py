"""Unmodified tree: Resource.create() raises for a valid, non-text process.executable.name."""
import os
import sys

os.environ.pop("DEEP_RESOURCE_ATTRIBUTES", None)
os.environ.pop("DEEP_SERVICE_NAME", None)

from deep.api.resource import Resource, SERVICE_NAME, TELEMETRY_SDK_NAME

failures = []
for label, value in [("int", 4711), ("tuple of str", ("python", "3.11")), ("float", 1.5)]:
    try:
        res = Resource.create({"process.executable.name": value})
        if not res.attributes.get(SERVICE_NAME) or TELEMETRY_SDK_NAME not in res.attributes:
            failures.append("%s: mandatory keys missing: %r" % (label, dict(res.attributes)))
    except Exception as e:
        failures.append("%s: Resource.create raised %s: %s" % (label, type(e).__name__, e))

if failures:
    print("FAIL")
    for f in failures:
        print("  " + f)
    sys.exit(1)
print("PASS")
