"""
C18 demo 0 (unmodified tree): code provided resource attributes cannot be given through the public entry point.

Resource.create(attributes, schema_url) supports code provided attributes (they override the environment), but
Deep.start() calls Resource.create() with no arguments and never looks at the config, so whatever the application
passes to deep.start({...}) - the code counterpart of the DEEP_SERVICE_NAME / DEEP_RESOURCE_ATTRIBUTES environment
variables under the ConfigService convention "config key K == environment DEEP_K" - never reaches the resource.
"""
import os
import sys

os.environ.pop("DEEP_SERVICE_NAME", None)
os.environ.pop("DEEP_RESOURCE_ATTRIBUTES", None)

from deep.api.deep import Deep  # noqa: E402
from deep.api.resource import Resource  # noqa: E402
from deep.config import ConfigService  # noqa: E402

failures = []

# the internal class supports it
internal = Resource.create({"service.name": "checkout", "team": "payments"})
if internal.attributes.get("service.name") != "checkout" or internal.attributes.get("team") != "payments":
    failures.append("Resource.create(attributes) does not take code provided attributes")

# the public path: what deep.start(config) does after building the ConfigService (I/O parts stubbed)
config = ConfigService({
    'SERVICE_NAME': 'checkout',
    'RESOURCE_ATTRIBUTES': 'team=payments',
    'PLUGIN_OTELPLUGIN': 'False', 'PLUGIN_PYTHONPLUGIN': 'False',
    'PLUGIN_PROMETHEUSPLUGIN': 'False', 'PLUGIN_OTELMETRICS': 'False',
})
deep = Deep(config)
deep.trigger_handler.start = lambda: None
deep.trigger_handler.shutdown = lambda: None
deep.grpc.start = lambda: None
deep.poll.start = lambda: None
deep.poll.shutdown = lambda: None
deep.start()
try:
    attributes = dict(deep.config.resource.attributes)
    # the config service itself knows the values ...
    if config.SERVICE_NAME != 'checkout':
        failures.append("config.SERVICE_NAME is %r" % (config.SERVICE_NAME,))
    # ... but the resource does not get them
    if attributes.get("service.name") != "checkout":
        failures.append("deep.start({'SERVICE_NAME': 'checkout'}): service.name is %r" % attributes.get("service.name"))
    if attributes.get("team") != "payments":
        failures.append("deep.start({'RESOURCE_ATTRIBUTES': 'team=payments'}): team is %r" % attributes.get("team"))
finally:
    deep.shutdown()

# the same settings given through the environment do arrive
os.environ["DEEP_SERVICE_NAME"] = "checkout"
os.environ["DEEP_RESOURCE_ATTRIBUTES"] = "team=payments"
from_env = dict(Resource.create().attributes)
if from_env.get("service.name") != "checkout" or from_env.get("team") != "payments":
    failures.append("environment settings do not arrive either: %r" % from_env)

if failures:
    for failure in failures:
        print(failure)
    print("FAIL")
    sys.exit(1)
print("PASS")
sys.exit(0)
