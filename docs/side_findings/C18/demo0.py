"""
C18 demo 0 - findings on the UNMODIFIED tree (prints FAIL / exit 1 there).

 A. Resource.create() with a code-provided `process.executable.name` that is a valid attribute value but not a
    str (an int, a list of str) and no service name: the default service name is built with `":" + value` and
    Resource.create raises TypeError - there is no resource at all.
 B. Values the attribute container accepts as valid and cleaned, but that cannot be sent: a sequence with a None
    element (explicitly valid, see _clean_attribute / the unit tests), an int beyond 64 bit, a str with a lone
    surrogate.  convert_resource() raises for them, i.e. every poll of a client with such a resource attribute fails
    before a request is built, and convert_snapshot() swallows the error and returns None (snapshot lost).

Run: PYTHONPATH=<tree>/src /venv/bin/python demo0.py
"""
import os
import sys

for _k in ("DEEP_RESOURCE_ATTRIBUTES", "DEEP_SERVICE_NAME"):
    os.environ.pop(_k, None)

from deep.api.resource import Resource, SERVICE_NAME, TELEMETRY_SDK_NAME, PROCESS_EXECUTABLE_NAME  # noqa: E402
from deep.grpc import convert_resource  # noqa: E402

problems = []

# A
for exe in (5, ["python", "3"]):
    try:
        r = Resource.create({PROCESS_EXECUTABLE_NAME: exe})
        if not r.attributes.get(SERVICE_NAME):
            problems.append("A: no service name for %r=%r" % (PROCESS_EXECUTABLE_NAME, exe))
    except Exception as e:  # noqa
        problems.append("A: Resource.create({%r: %r}) raised %r" % (PROCESS_EXECUTABLE_NAME, exe, e))

# B
for value in (("a", None), 2 ** 70, "\ud800"):
    r = Resource.create({"extra": value})
    if r.attributes.get("extra") != value:
        continue  # the container rejected it, nothing to send
    try:
        sent = convert_resource(r)
        keys = [kv.key for kv in sent.attributes]
        if TELEMETRY_SDK_NAME not in keys or SERVICE_NAME not in keys:
            problems.append("B: identity keys missing for extra=%r" % (value,))
    except Exception as e:  # noqa
        problems.append("B: the container stores extra=%r as valid, but the poll request cannot be built: %r"
                        % (value, e))

if problems:
    for p in problems:
        print("FAIL:", p)
    sys.exit(1)
print("PASS")
