"""
C14 demo 0 (unmodified tree) - "shutting down ... shuts every plugin down".

Deep.shutdown iterates config.plugins itself, not a copy. A plugin that takes itself off that list in its shutdown
(un-registering itself) makes the loop skip the plugin that follows it: that plugin is never shut down.

Run: PYTHONPATH=<tree>/src /venv/bin/python demo0.py   -> prints FAIL / exit 1 on the unmodified tree
"""
import sys

# noinspection PyUnresolvedReferences
from deepproto.proto.poll.v1.poll_pb2 import PollResponse, ResponseType

import deep.api.deep as deep_module
from deep.api import Deep
from deep.api.plugin import Plugin
from deep.config import ConfigService
from deep.config.tracepoint_config import TracepointConfigService


class FakeChannel:
    def unary_unary(self, path, *args, **kwargs):
        return lambda request, **kw: PollResponse(response_type=ResponseType.NO_CHANGE)


shut_down = []


class UnregisteringPlugin(Plugin):
    def shutdown(self):
        shut_down.append(self.name)
        self.config.plugins.remove(self)


class OtherPlugin(Plugin):
    def shutdown(self):
        shut_down.append(self.name)


def main():
    config = ConfigService({'SERVICE_SECURE': 'False', 'POLL_TIMER': 60, 'APP_ROOT': '/nowhere', 'NO_TRACE': True},
                           tracepoints=TracepointConfigService())
    deep_module.load_plugins = lambda cfg, custom=None: [UnregisteringPlugin(config=cfg), OtherPlugin(config=cfg)]
    agent = Deep(config)
    agent.grpc.start = lambda: None
    agent.grpc.channel = FakeChannel()
    agent.start()
    agent.shutdown()
    if shut_down != ['UnregisteringPlugin', 'OtherPlugin']:
        print("FAIL: plugins shut down: %s, expected both" % shut_down)
        return 1
    print("PASS: every plugin was shut down")
    return 0


if __name__ == '__main__':
    sys.exit(main())
