"""
C14 demo 0 (UNMODIFIED tree): NO_TRACE is looked up again at shutdown instead of remembering what start did, and it
is taken by its truthiness, not by its meaning.

 A. the setting changes between start and shutdown (environment DEEP_NO_TRACE, or attribute set on the config):
    A1 start installs the hooks, NO_TRACE becomes set, shutdown leaves OUR hooks installed;
    A2 start with NO_TRACE leaves the hooks alone, NO_TRACE is taken away, shutdown overwrites the hooks of somebody
       else (a debugger attached in the meantime) with the values of a start that never stored any.
 B. DEEP_NO_TRACE=false / 0 / no (text is all the environment can give) switches tracing OFF.

Run:  PYTHONPATH=<tree>/src /venv/bin/python demo0.py
"""
import logging
import os
import sys
import threading

logging.disable(logging.CRITICAL)

from deep.api import Deep  # noqa: E402
from deep.config import ConfigService  # noqa: E402
from deep.config.tracepoint_config import TracepointConfigService  # noqa: E402


def prev_sys(frame, event, arg):
    return None


def prev_thread(frame, event, arg):
    return None


def debugger(frame, event, arg):
    return None


def new_agent():
    custom = {'SERVICE_URL': 'localhost:1', 'SERVICE_SECURE': 'False', 'POLL_TIMER': 3600}
    agent = Deep(ConfigService(custom, tracepoints=TracepointConfigService()))
    agent.poll.poll = lambda: None
    return agent


def scenario_a1():
    problems = []
    os.environ.pop('DEEP_NO_TRACE', None)
    sys.settrace(prev_sys)
    threading.settrace(prev_thread)
    try:
        agent = new_agent()
        agent.start()
        if sys.gettrace() != agent.trigger_handler.trace_call:
            problems.append("A1: hooks not installed by start?")
        os.environ['DEEP_NO_TRACE'] = '1'
        agent.shutdown()
        if sys.gettrace() is not prev_sys or threading.gettrace() is not prev_thread:
            problems.append("A1: tracing enabled at start, DEEP_NO_TRACE set before shutdown: hooks after shutdown are "
                            "%r / %r, not the ones from before start" % (sys.gettrace(), threading.gettrace()))
    finally:
        os.environ.pop('DEEP_NO_TRACE', None)
        sys.settrace(None)
        threading.settrace(None)
    return problems


def scenario_a2():
    problems = []
    os.environ['DEEP_NO_TRACE'] = '1'
    sys.settrace(prev_sys)
    threading.settrace(prev_thread)
    try:
        agent = new_agent()
        agent.start()
        if sys.gettrace() is not prev_sys:
            problems.append("A2: hooks touched by a start with NO_TRACE?")
        # somebody else attaches, the agent has nothing to do with these hooks
        sys.settrace(debugger)
        threading.settrace(debugger)
        os.environ.pop('DEEP_NO_TRACE')
        agent.shutdown()
        if sys.gettrace() is not debugger or threading.gettrace() is not debugger:
            problems.append("A2: tracing disabled at start, DEEP_NO_TRACE removed before shutdown: the agent never "
                            "installed a hook, yet shutdown replaced the hooks in place by %r / %r" % (
                                sys.gettrace(), threading.gettrace()))
    finally:
        os.environ.pop('DEEP_NO_TRACE', None)
        sys.settrace(None)
        threading.settrace(None)
    return problems


def scenario_b():
    problems = []
    for text in ['false', '0', 'no']:
        os.environ['DEEP_NO_TRACE'] = text
        sys.settrace(None)
        threading.settrace(None)
        try:
            agent = new_agent()
            agent.start()
            if sys.gettrace() != agent.trigger_handler.trace_call:
                problems.append("B: DEEP_NO_TRACE=%s: start did not install the trace hooks (tracing is off)" % text)
            agent.shutdown()
        finally:
            os.environ.pop('DEEP_NO_TRACE', None)
            sys.settrace(None)
            threading.settrace(None)
    return problems


def main():
    problems = scenario_a1() + scenario_a2() + scenario_b()
    for problem in problems:
        print(problem)
    if problems:
        print("FAIL")
        return 1
    print("PASS")
    return 0


if __name__ == '__main__':
    sys.exit(main())
