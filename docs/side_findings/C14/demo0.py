"""
C14 demo 0 (UNMODIFIED tree): a start / shutdown / start / shutdown sequence can leave the agent's trace hooks installed.

The task handler is closed for good by the first shutdown (TaskHandler.flush sets _open = False, nothing reopens it).
When the agent is started again and the first poll of the second life brings a configuration (any response other than
NO_CHANGE), TracepointConfigService.update_new_config submits the listener update to the closed task handler, which
raises IllegalStateException - a BaseException, so LongPoll.__initial_poll ("except Exception") lets it through and
Deep.start() raises AFTER TriggerHandler.start() installed the hooks and BEFORE self.started = True.
The following Deep.shutdown() sees started == False and does nothing: the hooks of the agent stay in place for good.

The service is played by a stand-in for the generated PollConfigStub (no network).

Run: PYTHONPATH=<tree>/src /venv/bin/python demo0.py   -> prints FAIL, exit 1 on the unmodified tree
"""
import logging
import os
import sys
import threading

logging.disable(logging.CRITICAL)

import deep.poll.poll as poll_module  # noqa: E402
from deep.api import Deep  # noqa: E402
from deep.config import ConfigService  # noqa: E402
from deep.config.tracepoint_config import TracepointConfigService  # noqa: E402
from deepproto.proto.poll.v1.poll_pb2 import PollResponse, ResponseType  # noqa: E402

polls = []


class FakeStub:
    def __init__(self, channel):
        pass

    def poll(self, request, metadata=None):
        polls.append(request.current_hash)
        # the service has a (new) configuration for us each time we connect
        return PollResponse(ts_nanos=len(polls), current_hash="hash-%d" % len(polls), response=[],
                            response_type=ResponseType.UPDATE)


poll_module.PollConfigStub = FakeStub


def main():
    before_sys, before_thr = sys.gettrace(), threading.gettrace()
    cfg = ConfigService({'SERVICE_URL': '127.0.0.1:1', 'SERVICE_SECURE': 'False', 'POLL_TIMER': 3600,
                         'APP_ROOT': os.path.dirname(os.path.abspath(__file__))},
                        tracepoints=TracepointConfigService())
    agent = Deep(cfg)

    agent.start()
    agent.shutdown()
    first_ok = sys.gettrace() is before_sys and threading.gettrace() is before_thr
    print("first life : hooks restored after shutdown: %s" % first_ok)

    second_start = "returned"
    try:
        agent.start()
    except BaseException as e:
        second_start = "raised %s" % type(e).__name__
    agent.shutdown()
    second_ok = sys.gettrace() is before_sys and threading.gettrace() is before_thr
    left_sys, left_thr = sys.gettrace(), threading.gettrace()
    sys.settrace(None)
    threading.settrace(None)
    print("second life: start() %s; started=%s; hooks restored after shutdown: %s (sys=%s, threading=%s)" % (
        second_start, agent.started, second_ok, getattr(left_sys, "__qualname__", left_sys),
        getattr(left_thr, "__qualname__", left_thr)))

    if first_ok and second_ok:
        print("PASS")
        return 0
    print("FAIL")
    return 1


if __name__ == '__main__':
    sys.exit(main())
