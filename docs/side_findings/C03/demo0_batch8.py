"""
C03 demo 0: observations on the UNMODIFIED tree (public configuration paths).

(a) DEEP_NO_TRACE=false in the environment. NO_TRACE is not a key of deep.config, so ConfigService returns the raw
    environment text; TriggerHandler.start() tests it with `if self._config.NO_TRACE:` and the text 'false' is truthy.
    The trace function is never installed, so no tracepoint ever acts - although the user asked for tracing NOT to be
    disabled. (Given in code as the bool False it works.)

(b) A tracepoint with args {'span': 'method'} and no method_name (what build_trigger turns into a method location
    without a name) never acts, neither on its line nor when the enclosing function is entered.

Run: PYTHONPATH=<tree>/src /venv/bin/python demo0.py
"""
import importlib.util
import os
import sys
import tempfile
import threading

from deep import logging as deep_logging
from deep.api.resource import Resource
from deep.config import ConfigService
from deep.config.tracepoint_config import TracepointConfigService
from deep.processor.trigger_handler import TriggerHandler
from deep.push.push_service import PushService
from deep.task import TaskHandler

SOURCE = '''def work(value):
    total = value + 1
    total = total * 2
    return total
'''
LINE = 3


class RecordingPush(PushService):
    def __init__(self):
        super().__init__(None, None)
        self.pushed = []

    def push_snapshot(self, snapshot):
        self.pushed.append((snapshot.tracepoint.id, snapshot.frames[0].line_number))


class Config(ConfigService):
    @property
    def resource(self):
        return Resource.get_empty()


def load(directory, name):
    path = os.path.join(directory, name + '.py')
    with open(path, 'w') as f:
        f.write(SOURCE)
    spec = importlib.util.spec_from_file_location(name, path)
    module = importlib.util.module_from_spec(spec)
    spec.loader.exec_module(module)
    return module


def run_in_thread(func, *args):
    thread = threading.Thread(target=func, args=args)
    thread.start()
    thread.join(10)


def hits(target, custom, args):
    tracepoints = TracepointConfigService()
    config = Config(custom, tracepoints=tracepoints)
    deep_logging.init(config)
    tasks = TaskHandler()
    config.set_task_handler(tasks)
    push = RecordingPush()
    handler = TriggerHandler(config, push)
    tracepoints.add_custom('target.py', LINE, args, [], [])
    tasks.flush()
    handler.start()
    try:
        run_in_thread(target.work, 1)
    finally:
        handler.shutdown()
    return push.pushed


def main():
    directory = tempfile.mkdtemp(prefix='c03_demo0_')
    target = load(directory, 'target')
    ok = True

    # (a)
    os.environ.pop('DEEP_NO_TRACE', None)
    in_code = hits(target, {'NO_TRACE': False}, {'fire_count': '-1', 'fire_period': '0'})
    os.environ['DEEP_NO_TRACE'] = 'false'
    from_env = hits(target, {}, {'fire_count': '-1', 'fire_period': '0'})
    os.environ.pop('DEEP_NO_TRACE', None)
    print("(a) NO_TRACE=False in code: %d action(s); DEEP_NO_TRACE=false in the environment: %d action(s)" % (
        len(in_code), len(from_env)))
    if len(in_code) != 1 or len(from_env) != 1:
        print("    the line tracepoint did not act once in both configurations")
        ok = False

    # (b)
    span_method = hits(target, {'NO_TRACE': False}, {'span': 'method', 'fire_count': '-1', 'fire_period': '0'})
    print("(b) tracepoint on target.py:%d with span=method (snapshot not switched off): %d action(s)" % (
        LINE, len(span_method)))
    if len(span_method) != 1:
        print("    the tracepoint took no snapshot at all while work() ran (entered once, line %d reached once)" % LINE)
        ok = False

    if ok:
        print("PASS")
        return 0
    print("FAIL")
    return 1


if __name__ == '__main__':
    sys.exit(main())
