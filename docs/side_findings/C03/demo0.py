"""
C03 demo 0: two situations in which the UNMODIFIED tree does not act at a configured line.

A. A frame that was entered while the handler had NO tracepoints at all is never traced line by line (trace_call
   returns None for its 'call' event), so a line tracepoint that is installed while the function is still running
   (a worker loop, a main() function, a long-lived generator-free thread body) does not act when the line is reached.
   The control run shows the same program acting when some unrelated tracepoint was configured before.

B. convert_response merges triggers by location id "path#line" / "path#method_name". A method tracepoint whose
   method_name is the text "3" has the same id as a line tracepoint on line 3 of that file: the later one is merged
   into the location of the earlier one, so the line tracepoint never acts (and in the other order the method
   tracepoint's actions act on line 3).

Run: PYTHONPATH=<tree>/src /venv/bin/python demo0.py
"""
import importlib.util
import os
import sys
import tempfile
import threading

from deepproto.proto.tracepoint.v1.tracepoint_pb2 import TracePointConfig

from deep import logging
from deep.api.plugin import TracepointLogger
from deep.api.resource import Resource
from deep.api.tracepoint.trigger import build_trigger
from deep.config import ConfigService
from deep.grpc import convert_response
from deep.processor.trigger_handler import TriggerHandler
from deep.push.push_service import PushService

TARGET_FILE = "c03_demo0_target.py"
TARGET_SRC = '''def work(value):
    total = value + 1
    total = total * 2
    return total


def worker(ready, go):
    ready.set()
    go.wait(10)
    done = True
    return done
'''
WORK_LINE = 3
WORKER_LINE = 10  # "done = True"
ARGS = {'fire_count': '-1', 'fire_period': '0'}


class MockPushService(PushService):
    def __init__(self):
        super().__init__(None, None)
        self.pushed = []

    def push_snapshot(self, snapshot):
        self.pushed.append(snapshot)


class MockLogger(TracepointLogger):
    def log_tracepoint(self, log_msg, tp_id, ctx_id):
        pass


class MockConfigService(ConfigService):
    def __init__(self, custom):
        super().__init__(custom)
        self.logger = MockLogger()

    @property
    def tracepoint_logger(self):
        return self.logger

    @property
    def resource(self):
        return Resource.get_empty()


def load_target():
    directory = tempfile.mkdtemp(prefix="c03_demo0_")
    path = os.path.join(directory, TARGET_FILE)
    with open(path, "w") as f:
        f.write(TARGET_SRC)
    spec = importlib.util.spec_from_file_location("c03_demo0_target", path)
    module = importlib.util.module_from_spec(spec)
    spec.loader.exec_module(module)
    return module


def late_tracepoint(target, config, initial_config):
    """Install the tracepoint on WORKER_LINE while worker() is already running; return how often it acted."""
    push = MockPushService()
    handler = TriggerHandler(config, push)
    handler.new_config(initial_config)
    original_sys, original_threading = sys.gettrace(), threading.gettrace()
    try:
        handler.start()
        ready, go = threading.Event(), threading.Event()
        thread = threading.Thread(target=target.worker, args=(ready, go))
        thread.start()
        ready.wait(10)
        handler.new_config(initial_config + [build_trigger("tp-late", TARGET_FILE, WORKER_LINE, dict(ARGS), [], [])])
        go.set()
        thread.join(10)
    finally:
        handler.shutdown()
        sys.settrace(original_sys)
        threading.settrace(original_threading)
    return [s.tracepoint.id for s in push.pushed].count("tp-late")


def run_work(target, config, triggers):
    push = MockPushService()
    handler = TriggerHandler(config, push)
    handler.new_config(triggers)
    original_sys, original_threading = sys.gettrace(), threading.gettrace()
    try:
        handler.start()
        thread = threading.Thread(target=target.work, args=(1,))
        thread.start()
        thread.join(10)
    finally:
        handler.shutdown()
        sys.settrace(original_sys)
        threading.settrace(original_threading)
    return [s.tracepoint.id for s in push.pushed]


def main():
    config = MockConfigService({'NO_TRACE': False})
    logging.init(config)
    target = load_target()
    problems = []

    # A. control: an unrelated tracepoint (never reached) is configured before the worker starts
    unrelated = [build_trigger("tp-unrelated", "no_such_file.py", 1, dict(ARGS), [], [])]
    control = late_tracepoint(target, config, unrelated)
    if control != 1:
        problems.append("A(control): expected 1 action with a non-empty initial config, got %d" % control)
    acted = late_tracepoint(target, config, [])
    if acted != 1:
        problems.append("A: line %d of %s was reached once after tp-late was installed, it acted %d times "
                        "(the frame was entered while the config was empty)" % (WORKER_LINE, TARGET_FILE, acted))

    # B. line tracepoint on line 3 + method tracepoint with method_name "3"
    response = [
        TracePointConfig(ID="tp-method", path=TARGET_FILE, line_number=0, args=dict(ARGS, method_name="3")),
        TracePointConfig(ID="tp-line", path=TARGET_FILE, line_number=WORK_LINE, args=dict(ARGS)),
    ]
    acted = run_work(target, config, convert_response(response))
    if acted.count("tp-line") != 1:
        problems.append("B: line %d of %s was reached once, tp-line acted %d times (acted: %s)"
                        % (WORK_LINE, TARGET_FILE, acted.count("tp-line"), acted))
    acted = run_work(target, config, convert_response(list(reversed(response))))
    if acted.count("tp-method") != 0:
        problems.append("B(reversed): no function named '3' exists, tp-method acted %d times (acted: %s)"
                        % (acted.count("tp-method"), acted))

    if problems:
        for problem in problems:
            print("FAIL:", problem)
        return 1
    print("PASS")
    return 0


if __name__ == '__main__':
    sys.exit(main())
