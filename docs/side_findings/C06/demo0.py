"""
C06 demo 0 - inputs / histories for which the UNMODIFIED tree already violates the property.

Six independent scenarios, each prints its own verdict; the program prints FAIL and exits 1 if any of them is violated.

Run: PYTHONPATH=<tree>/src /venv/bin/python demo0.py
"""
import logging
import os
import sys
import time

from deep.api.resource import Resource
from deep.api.tracepoint.constants import STAGE, METHOD_CAPTURE, LINE_CAPTURE
from deep.api.tracepoint.trigger import Location, LocationAction, LineLocation, Trigger, FunctionLocation
from deep.config import ConfigService
from deep.processor.trigger_handler import TriggerHandler
from deep.push import convert_snapshot
from deep.push.push_service import PushService

logging.disable(logging.CRITICAL)
THIS = os.path.basename(__file__)


class Push(PushService):
    def __init__(self):
        super().__init__(None, None)
        self.pushed = []

    def push_snapshot(self, snapshot):
        if convert_snapshot(snapshot) is not None:
            self.pushed.append(snapshot)


class Cfg(ConfigService):
    def __init__(self):
        super().__init__({'APP_ROOT': '', 'NO_TRACE': False})

    @property
    def tracepoint_logger(self):
        return None

    @property
    def resource(self):
        return Resource.get_empty()


def line_of(marker):
    with open(__file__) as source:
        for number, text in enumerate(source, 1):
            if text.rstrip().endswith('# ' + marker):
                return number
    raise KeyError(marker)


def snap(tp_id, **extra):
    config = {'fire_count': '-1', 'fire_period': '0'}
    config.update(extra)
    return LocationAction(tp_id, None, config, LocationAction.ActionType.Snapshot)


def at_line(marker, *actions):
    return Trigger(LineLocation(THIS, line_of(marker), Location.Position.START), list(actions))


def at_method(name, *actions):
    return Trigger(FunctionLocation(THIS, name, Location.Position.START), list(actions))


def run(triggers, func, *args):
    push = Push()
    handler = TriggerHandler(Cfg(), push)
    handler.new_config(triggers)
    handler.start()
    try:
        func(*args)
    finally:
        handler.shutdown()
    return push.pushed


def frame_names(snapshot):
    return sorted(var_id.name for var_id in snapshot.frames[0].variables)


# ---- 1: the processing time budget is measured from the trace event, so it is shared by the tracepoints of a line
class SlowToRender:
    def __str__(self):
        time.sleep(0.15)  # longer than the default MAX_TP_PROCESS_TIME of 100 ms
        return 'slow'


def slow_target():
    number = 1
    slow = SlowToRender()
    return number  # TP-SLOW


def scenario_shared_time_budget():
    pushed = run([at_line('TP-SLOW', snap('first'), snap('second'))], slow_target)
    got = {s.tracepoint.id: frame_names(s) for s in pushed}
    if got.get('first') == ['number', 'slow'] and got.get('second') == ['number', 'slow']:
        return None
    return 'two tracepoints on one line, a local that takes 150 ms to render: frames are %s' % got


# ---- 2: a watch that binds a name (walrus) leaves it in the frame's locals, the next tracepoint reports it as a local
def walrus_target():
    only_local = 1
    return only_local  # TP-WALRUS


def scenario_watch_leaks_into_next_tracepoint():
    pushed = run([at_line('TP-WALRUS', snap('first', watches=['(leaked := 41)']), snap('second'))], walrus_target)
    got = {s.tracepoint.id: frame_names(s) for s in pushed}
    if got.get('second') == ['only_local']:
        return None
    return "watch '(leaked := 41)' of the first tracepoint: the second tracepoint's frame has locals %s" % got.get(
        'second')


# ---- 3: a line capture on the last line of a method hides the method capture of that method below it on the queue
def captured_method(x):
    y = x + 1
    return y  # TP-LAST-LINE


def unrelated():
    return 0


def scenario_line_capture_hides_method_capture():
    def work():
        captured_method(1)
        unrelated()

    pushed = run([at_method('captured_method', snap('method', **{STAGE: METHOD_CAPTURE})),
                  at_line('TP-LAST-LINE', snap('line', **{STAGE: LINE_CAPTURE}))], work)
    got = sorted(s.tracepoint.id for s in pushed)
    if got == ['line', 'method']:
        return None
    return 'method capture + line capture on the last line of the same method: delivered snapshots are %s' % got


# ---- 4: a watch whose result is the frame's own namespace gets the id of the unwrapped (removed) locals entry
def namespace_target():
    value = 1
    return value  # TP-NAMESPACE


def scenario_watch_on_locals_dangles():
    pushed = run([at_line('TP-NAMESPACE', snap('tp', watches=['locals()']))], namespace_target)
    if len(pushed) != 1:
        return 'no snapshot'
    watch = pushed[0].watches[0]
    if watch.result is not None and watch.result.vid in pushed[0].var_lookup:
        return None
    return "watch 'locals()': result id %s is not in the snapshot's variable table (error=%r)" % (
        watch.result.vid if watch.result else None, watch.error)


# ---- 5: a deferred return capture reports a value that was freed since the frame was collected (identity reuse)
class Payload:
    def __init__(self, text):
        self.text = text

    def __str__(self):
        return 'Payload(%s)' % self.text


class Box:
    pass


def replace_payload(box):
    box.child = None  # frees the payload that was collected as box.child when the method was entered
    return Payload('new')  # the new object is likely to get the identity of the freed one


def scenario_return_capture_reports_freed_value():
    box = Box()
    box.child = Payload('old')
    pushed = run([at_method('replace_payload', snap('tp', **{STAGE: METHOD_CAPTURE}))], replace_payload, box)
    if len(pushed) != 1:
        return 'no snapshot'
    returns = [w for w in pushed[0].watches if w.expression == 'return']
    value = pushed[0].var_lookup[returns[0].result.vid].value if returns and returns[0].result else None
    if value == 'Payload(new)':
        return None
    return "method returned Payload(new), the snapshot's return capture says %r" % value


# ---- 6: a type whose metaclass makes reading __name__ fail costs the whole snapshot
class Meta(type):
    @property
    def __name__(cls):
        raise RuntimeError('no name for you')


class Nameless(metaclass=Meta):
    pass


def nameless_target():
    plain = 1
    odd = Nameless()
    return plain  # TP-NAMELESS


def scenario_type_name_raises():
    pushed = run([at_line('TP-NAMELESS', snap('tp'))], nameless_target)
    if len(pushed) == 1 and 'plain' in frame_names(pushed[0]):
        return None
    return 'a local whose type raises on __name__: %d snapshots delivered' % len(pushed)


def main():
    failed = False
    for scenario in [scenario_shared_time_budget, scenario_watch_leaks_into_next_tracepoint,
                     scenario_line_capture_hides_method_capture, scenario_watch_on_locals_dangles,
                     scenario_return_capture_reports_freed_value, scenario_type_name_raises]:
        try:
            problem = scenario()
        except Exception as e:  # a scenario that cannot even be evaluated is reported, not hidden
            problem = 'scenario raised %r' % e
        print('%-45s %s' % (scenario.__name__, 'ok' if problem is None else 'VIOLATED: ' + problem))
        failed = failed or problem is not None
    print('FAIL' if failed else 'PASS')
    return 1 if failed else 0


if __name__ == '__main__':
    sys.exit(main())
