"""
C06 demo 0 (finding on the UNMODIFIED tree): a tracepoint that is given a collection limit (MAX_VAR_DEPTH,
MAX_STRING_LENGTH, MAX_COLLECTION_SIZE, MAX_VARIABLES or MAX_TP_PROCESS_TIME) as an argument - the only way a limit can
be configured: the args of a poll response or of register_tracepoint - produces its snapshot, but the snapshot is never
delivered.

build_snapshot_action stores the parsed limit as an int in the action config, LocationAction.tracepoint copies the
action config into the args of the snapshot's tracepoint, and the wire type of those args is map<string, string>:
convert_snapshot fails with a TypeError, logs it, returns None and PushService._push_task silently drops the snapshot.

Run: PYTHONPATH=<tree>/src /venv/bin/python demo0.py   -> FAIL / exit 1 on the unmodified tree
"""
import os
import sys
from concurrent.futures import Future

# noinspection PyUnresolvedReferences
from deepproto.proto.tracepoint.v1.tracepoint_pb2 import TracePointConfig

from deep.api.resource import Resource
from deep.config import ConfigService
from deep.config.tracepoint_config import TracepointConfigService
from deep.grpc import convert_response
from deep.processor.trigger_handler import TriggerHandler
from deep.push.push_service import PushService


class InlineTaskHandler:
    """Runs the task at once, on the calling thread."""

    def submit_task(self, task, *args):
        future = Future()
        try:
            future.set_result(task(*args))
        except BaseException as e:
            future.set_exception(e)
        return future


class FakeChannel:
    """A grpc channel that records what is sent over it."""

    def __init__(self):
        self.sent = []

    def unary_unary(self, method, *args, **kwargs):
        def call(request, metadata=None):
            self.sent.append((method, request))

        return call


class FakeGrpc:
    def __init__(self):
        self.channel = FakeChannel()

    @staticmethod
    def metadata():
        return []


def target():
    value = {'a': [1, 2, 3]}
    return len(value)  # <- tracepoint line


TP_LINE = target.__code__.co_firstlineno + 2


def run(args):
    config = ConfigService({}, tracepoints=TracepointConfigService())
    config.resource = Resource.create()
    grpc = FakeGrpc()
    handler = TriggerHandler(config, PushService(grpc, InlineTaskHandler()))
    response = [TracePointConfig(ID='tp-1', path=os.path.basename(__file__), line_number=TP_LINE, args=args)]
    handler.new_config(convert_response(response))
    sys.settrace(handler.trace_call)
    try:
        target()
    finally:
        sys.settrace(None)
    return grpc.channel.sent


def main():
    problems = []
    for args in [{}, {'frame_type': 'all_frame'}, {'MAX_VAR_DEPTH': '3'}, {'MAX_STRING_LENGTH': '10'},
                 {'MAX_COLLECTION_SIZE': '2'}, {'MAX_VARIABLES': '50'}, {'MAX_TP_PROCESS_TIME': '500'}]:
        sent = run(args)
        if len(sent) != 1:
            problems.append("args %r: %d snapshots reached the service, expected 1" % (args, len(sent)))
    if problems:
        for problem in problems:
            print(problem)
        print("FAIL")
        return 1
    print("PASS")
    return 0


if __name__ == '__main__':
    sys.exit(main())
