"""
C06 demo 0: inputs for which the UNMODIFIED tree already loses the whole snapshot.

 1. a value whose __str__ raises AND whose class cannot be rendered either (the metaclass' __repr__ raises):
    the placeholder f'{type(value)}@{id(value)}' in variable_to_string is itself built by running application code.
 2. a value whose __str__ returns an instance of a str subclass that fails when it is sliced / measured:
    truncate_string slices the text that came back from str() outside of any guard.

Run: PYTHONPATH=<tree>/src /venv/bin/python demo0.py   -> prints FAIL (exit 1) on the unmodified tree
"""
import logging
import os
import sys

from deep.api.resource import Resource
from deep.api.tracepoint.trigger import Location, LocationAction, LineLocation, Trigger
from deep.config import ConfigService
from deep.processor.trigger_handler import TriggerHandler
from deep.push.push_service import PushService

logging.disable(logging.CRITICAL)


class Push(PushService):
    def __init__(self):
        super().__init__(None, None)
        self.pushed = []

    def push_snapshot(self, snapshot):
        self.pushed.append(snapshot)


class Config(ConfigService):
    @property
    def resource(self):
        return Resource.get_empty()


def hit(frame):
    push = Push()
    handler = TriggerHandler(Config({}), push)
    location = LineLocation(os.path.basename(frame.f_code.co_filename), frame.f_lineno, Location.Position.START)
    handler.new_config([Trigger(location, [LocationAction("tp-1", None, {}, LocationAction.ActionType.Snapshot)])])
    handler.trace_call(frame, "line", None)
    return push.pushed


class SecretiveMeta(type):
    def __repr__(cls):
        raise RuntimeError("this class does not render")


class Unprintable(metaclass=SecretiveMeta):
    def __str__(self):
        raise RuntimeError("this value does not render")

    __repr__ = __str__


class LazyText(str):
    def __getitem__(self, item):
        raise RuntimeError("translation catalogue not loaded")


class Translated:
    def __str__(self):
        return LazyText("hello")


def case_metaclass():
    count = 1
    value = Unprintable()
    label = "text"
    return hit(sys._getframe())


def case_str_subclass():
    count = 1
    value = Translated()
    label = "text"
    return hit(sys._getframe())


def main():
    problems = []
    for case in (case_metaclass, case_str_subclass):
        pushed = case()
        if len(pushed) != 1:
            problems.append("%s: expected 1 snapshot to be delivered, got %d" % (case.__name__, len(pushed)))
            continue
        snapshot = pushed[0]
        found = {v.name: snapshot.var_lookup[v.vid].value for v in snapshot.frames[0].variables
                 if v.vid in snapshot.var_lookup}
        if found.get('count') != '1' or found.get('label') != 'text' or 'value' not in found:
            problems.append("%s: variables not intact: %s" % (case.__name__, found))
    if problems:
        print("FAIL")
        for problem in problems:
            print(" -", problem)
        return 1
    print("PASS")
    return 0


if __name__ == '__main__':
    sys.exit(main())
