"""
C15 demo 0 (UNMODIFIED tree): under recursion with a caught exception a deferred capture is completed by another
invocation, with that invocation's outcome.

walk(2) calls walk(1) calls walk(0); walk(0) raises, walk(1) catches that and returns 10, walk(2) returns 20 - no
exception ever reaches the frame of walk(2). A method-capture snapshot is opened by every invocation of walk. The
snapshot opened by walk(2) must be completed when walk(2) ends, with 'return' = 20; the one opened by walk(1) with
'return' = 10 (or, if a caught exception is accepted as the end of a capture, with the exception - but not with
'return' = None, which is the unwinding of walk(0)).

Run: PYTHONPATH=<tree>/src /venv/bin/python demo0.py
"""
import os
import sys
import threading

from deep.api.resource import Resource
from deep.api.tracepoint.constants import STAGE, METHOD_CAPTURE
from deep.api.tracepoint.trigger import Location, LocationAction, Trigger, FunctionLocation
from deep.config import ConfigService
from deep.processor.trigger_handler import TriggerHandler
from deep.push.push_service import PushService

ME = os.path.basename(__file__)
LIVE = []


class Config(ConfigService):
    @property
    def resource(self):
        return Resource.get_empty()


class RecordingPush(PushService):
    def __init__(self):
        self.pushed = []

    def push_snapshot(self, snapshot):
        self.pushed.append((snapshot, list(LIVE)))


def walk(n):
    LIVE.append(n)
    if n == 0:
        raise ValueError("bottom")
    if n == 1:
        try:
            walk(n - 1)
        except ValueError:
            pass
        return 10
    return walk(n - 1) + 10


def arg_n(snapshot):
    for variable_id in snapshot.frames[0].variables:
        if variable_id.name == 'n':
            return snapshot.var_lookup[variable_id.vid].value
    return None


def outcome(snapshot):
    return [(w.expression, None if w.result is None else snapshot.var_lookup[w.result.vid].value)
            for w in snapshot.watches]


def part_one():
    push = RecordingPush()
    handler = TriggerHandler(Config({}), push)
    handler.new_config([Trigger(FunctionLocation(ME, 'walk', Location.Position.START), [
        LocationAction('tp', None, {STAGE: METHOD_CAPTURE, 'fire_count': '-1', 'fire_period': '0'},
                       LocationAction.ActionType.Snapshot)])])
    result = {}

    def work():
        result['value'] = walk(2)

    handler.start()
    try:
        thread = threading.Thread(target=work)
        thread.start()
        thread.join()
    finally:
        handler.shutdown()

    problems = []
    for snapshot, live in push.pushed:
        got = outcome(snapshot)
        n = arg_n(snapshot)
        print("  capture opened by walk(%s): completed with %s when the invocations %s had been entered"
              % (n, got, live))
        if n == '2' and got != [('return', '20')]:
            problems.append("walk(2) returned %r and never saw an exception, but its capture says %s"
                            % (result['value'], got))
        if n == '1' and got == [('return', 'None')]:
            problems.append("walk(1) returned 10, but its capture says %s (the unwinding of walk(0))" % got)
    return problems


def main():
    problems = part_one()
    if problems:
        print("FAIL")
        for problem in problems:
            print("  " + problem)
        return 1
    print("PASS")
    return 0


if __name__ == '__main__':
    sys.exit(main())
