"""
C15 demo 0: the UNMODIFIED tree already violates the property for three program shapes.

 A. nested openings: a method span on a function plus a line capture on that function's LAST line (its `return`).
    Only the top pending context is looked at for an event, so the function's 'return' event completes the line
    capture and the method span stays pending for ever (never closed, left behind when the thread's work ends).
 B. recursion with a tracepoint that fires once (fire count 1 is the default): the context opened by the OUTER
    invocation is matched by file + function name only, so the INNERMOST invocation's return completes it and its
    value is captured as the outer invocation's result.
 C. an exception that is caught: an 'exception' event is also delivered to a frame that catches the exception, so the
    capture of an invocation that returns normally is completed early with an exception it never raised.

Run: PYTHONPATH=<tree>/src /venv/bin/python demo0.py      (prints FAIL / exits 1 on the unmodified tree)
"""
import inspect
import os
import sys
import threading

from deep.api.plugin.span import SpanProcessor
from deep.api.resource import Resource
from deep.api.tracepoint.constants import STAGE, METHOD_CAPTURE, LINE_CAPTURE, FIRE_COUNT, FIRE_PERIOD
from deep.api.tracepoint.trigger import Location, LocationAction, Trigger, FunctionLocation, LineLocation
from deep.config import ConfigService
from deep.processor.trigger_handler import TriggerHandler
from deep.push.push_service import PushService

ME = os.path.basename(__file__)


class Span:
    def __init__(self, name):
        self.name = name
        self.closes = 0

    def close(self):
        self.closes += 1


class Spans(SpanProcessor):
    def __init__(self):
        self.spans = []

    def create_span(self, name, context_id, tracepoint_id):
        self.spans.append(Span(name))
        return self.spans[-1]

    def current_span(self):
        return None


class Push(PushService):
    def __init__(self):
        self.pushed = []

    def push_snapshot(self, snapshot):
        self.pushed.append(snapshot)


class Config(ConfigService):
    @property
    def resource(self):
        return Resource.get_empty()


def captured(snapshot):
    return [(w.expression, snapshot.var_lookup[w.result.vid].value) for w in snapshot.watches if w.result]


def make(triggers):
    config = Config({})
    spans = Spans()
    config.plugins = [spans]
    push = Push()
    handler = TriggerHandler(config, push)
    handler.new_config(triggers)
    return handler, spans, push


def traced(handler, fn, *args):
    out = {}

    def body():
        sys.settrace(handler.trace_call)
        try:
            out['result'] = fn(*args)
        finally:
            sys.settrace(None)
            out['pending'] = len(handler._callbacks.value) if handler._callbacks.is_set else 0
            handler._callbacks.clear()

    thread = threading.Thread(target=body)
    thread.start()
    thread.join()
    return out['result'], out['pending']


UNLIMITED = {FIRE_COUNT: -1, FIRE_PERIOD: 0}


# ---------------------------------------------------------------- traced programs
def double_next(x):
    y = x + 1
    return y * 2


def fact(n):
    if n <= 1:
        return 1
    return n * fact(n - 1)


def boom():
    raise ValueError('boom')


def catcher():
    try:
        boom()
    except ValueError:
        pass
    return 'fine'


def case_a():
    lines, start = inspect.getsourcelines(double_next)
    return_line = start + 2
    handler, spans, push = make([
        Trigger(FunctionLocation(ME, 'double_next', Location.Position.START),
                [LocationAction('tp-span', None, dict(UNLIMITED), LocationAction.ActionType.Span)]),
        Trigger(LineLocation(ME, return_line, Location.Position.CAPTURE),
                [LocationAction('tp-line', None, dict(UNLIMITED, **{STAGE: LINE_CAPTURE}),
                                LocationAction.ActionType.Snapshot)]),
    ])
    result, pending = traced(handler, double_next, 1)
    problems = []
    for span in spans.spans:
        if span.closes != 1:
            problems.append("A: span %s completed %d times although double_next returned %r"
                            % (span.name, span.closes, result))
    if pending:
        problems.append("A: %d callbacks left pending when the thread's work ended" % pending)
    return problems


def case_b():
    handler, spans, push = make([
        Trigger(FunctionLocation(ME, 'fact', Location.Position.START),
                [LocationAction('tp-capture', None, {FIRE_COUNT: 1, STAGE: METHOD_CAPTURE},
                                LocationAction.ActionType.Snapshot)]),
    ])
    result, pending = traced(handler, fact, 4)
    problems = []
    for snapshot in push.pushed:
        n = [snapshot.var_lookup[v.vid].value for v in snapshot.frames[0].variables if v.name == 'n']
        if captured(snapshot) != [('return', str(result))]:
            problems.append("B: snapshot of fact(%s) captured %s, that invocation returned %r"
                            % (n[0], captured(snapshot), result))
    return problems


def case_c():
    handler, spans, push = make([
        Trigger(FunctionLocation(ME, 'catcher', Location.Position.START),
                [LocationAction('tp-capture', None, dict(UNLIMITED, **{STAGE: METHOD_CAPTURE}),
                                LocationAction.ActionType.Snapshot)]),
    ])
    result, pending = traced(handler, catcher)
    problems = []
    for snapshot in push.pushed:
        if captured(snapshot) != [('return', result)]:
            problems.append("C: snapshot of catcher() captured %s, that invocation returned %r and raised nothing"
                            % ([c[0] for c in captured(snapshot)], result))
    return problems


def main():
    problems = case_a() + case_b() + case_c()
    if problems:
        for problem in problems:
            print("  " + problem)
        print("FAIL")
        return 1
    print("PASS")
    return 0


if __name__ == '__main__':
    sys.exit(main())
