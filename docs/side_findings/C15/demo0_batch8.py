"""
C15 demo 0 (UNMODIFIED tree): a method_capture tracepoint with the DEFAULT rate limit (no fire_count argument, so '1')
on a recursive function, and one on a function that catches an exception of a callee, complete the deferred snapshot
with the result of another invocation / with an exception the invocation never raised.

Run: PYTHONPATH=<tree>/src /venv/bin/python demo0.py     (prints FAIL / exit 1 on the unmodified tree)
"""
import os
import sys
import tempfile
import threading
import types
from concurrent.futures import Future

from deep.api.resource import Resource
from deep.config import ConfigService
from deep.config.tracepoint_config import TracepointConfigService
from deep.processor.trigger_handler import TriggerHandler
from deep.push.push_service import PushService


class RecordingPush(PushService):
    def __init__(self):
        super().__init__(None, None)
        self.pushed = []

    def push_snapshot(self, snapshot):
        self.pushed.append(snapshot)


class SyncTaskHandler:
    def submit_task(self, task, *args):
        future = Future()
        future.set_result(task(*args))
        return future


SOURCE = '''
def rec(n):
    if n == 0:
        return 'innermost'
    rec(n - 1)
    return 'level-%d' % n


def helper():
    raise ValueError('handled')


def careful():
    try:
        helper()
    except ValueError:
        pass
    return 'fine'
'''


def main():
    tmp = tempfile.mkdtemp()
    file_name = os.path.join(tmp, 'c15_demo0_target.py')
    with open(file_name, 'w') as f:
        f.write(SOURCE)
    module = types.ModuleType('c15_demo0_target')
    exec(compile(SOURCE, file_name, 'exec'), module.__dict__)

    tracepoints = TracepointConfigService()
    config = ConfigService({}, tracepoints)
    config.resource = Resource.get_empty()
    config.set_task_handler(SyncTaskHandler())
    push = RecordingPush()
    handler = TriggerHandler(config, push)

    # what Deep.register_tracepoint does; no fire_count / fire_period: the defaults ('1' / '1000') apply
    rec_id = tracepoints.add_custom('c15_demo0_target.py', 2, {'method_name': 'rec', 'stage': 'method_capture'}, [], [])
    careful_id = tracepoints.add_custom('c15_demo0_target.py', 13,
                                        {'method_name': 'careful', 'stage': 'method_capture'}, [], [])
    results = {}

    def run():
        sys.settrace(handler.trace_call)
        try:
            results['rec'] = module.rec(2)
            results['careful'] = module.careful()
        finally:
            sys.settrace(None)
        handler._callbacks.clear()

    thread = threading.Thread(target=run)
    thread.start()
    thread.join()

    problems = []
    for tp_id, name in ((rec_id, 'rec'), (careful_id, 'careful')):
        snapshots = [s for s in push.pushed if s.tracepoint.id == tp_id]
        if len(snapshots) != 1:
            problems.append("%s: %d snapshots" % (name, len(snapshots)))
            continue
        captured = [(w.expression, snapshots[0].var_lookup[w.result.vid].value) for w in snapshots[0].watches]
        if captured != [('return', results[name])]:
            problems.append("%s(): the invocation that opened the capture returned %r, the snapshot captured %s"
                            % (name, results[name], captured))
    if problems:
        print("FAIL")
        for problem in problems:
            print(" -", problem)
        return 1
    print("PASS")
    return 0


if __name__ == '__main__':
    sys.exit(main())
