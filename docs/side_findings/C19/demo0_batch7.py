"""C19 demo 0 (unmodified tree): IN_APP_EXCLUDE does not behave the same given in code and given as DEEP_IN_APP_EXCLUDE.

The environment-backed default appends sys.exec_prefix to whatever the user listed; a value given in code is used as
it is. So the same documented text '/opt/vendor' marks files of the interpreter's own prefix as NOT application
frames when it comes from the environment, and as application frames when it comes from code.
"""
import os
import sys

from deep.config import ConfigService

TEXT = '/opt/vendor'
# an application root that contains the interpreter prefix (a virtualenv inside the project, APP_ROOT='/' ...)
APP_ROOT = os.path.dirname(sys.exec_prefix.rstrip('/')) or '/'
FILE = os.path.join(sys.exec_prefix, 'lib', 'python3', 'site-packages', 'requests', 'api.py')

os.environ.pop('DEEP_IN_APP_EXCLUDE', None)
from_code = ConfigService({'APP_ROOT': APP_ROOT, 'IN_APP_EXCLUDE': TEXT})
code_result = from_code.is_app_frame(FILE)
code_value = from_code.IN_APP_EXCLUDE

os.environ['DEEP_IN_APP_EXCLUDE'] = TEXT
from_env = ConfigService({'APP_ROOT': APP_ROOT})
env_result = from_env.is_app_frame(FILE)
env_value = from_env.IN_APP_EXCLUDE

print("file               :", FILE)
print("given in code      :", code_value, "->", code_result)
print("given as DEEP_ env :", env_value, "->", env_result)

if code_result != env_result:
    print("FAIL")
    sys.exit(1)
print("PASS")
sys.exit(0)
