"""
C19 demo 0 (UNMODIFIED tree): the documented setting IN_APP_EXCLUDE does not behave identically when it is given in
code and when it is given as DEEP_IN_APP_EXCLUDE.

deep.config.IN_APP_EXCLUDE() (the environment-backed default) always appends sys.exec_prefix to the list it reads from
the environment; a value given in code replaces the whole list, so the interpreter's own prefix is no longer excluded.
Same documented value, same file, same APP_ROOT - different classification of the frame.

Run: PYTHONPATH=<tree>/src /venv/bin/python demo0.py      (prints FAIL, exit 1, on the unmodified tree)
"""
import json
import os
import subprocess
import sys


def child(code_value):
    from deep.config import ConfigService
    custom = {'APP_ROOT': '/'}
    if code_value != '-':
        custom['IN_APP_EXCLUDE'] = code_value
    cfg = ConfigService(custom)
    # a file of an installed package of this interpreter
    filename = os.path.join(sys.exec_prefix, 'lib', 'site-packages', 'somepkg', 'mod.py')
    print(json.dumps(cfg.is_app_frame(filename)))


def run_case(code_value, env_value):
    env = dict(os.environ)
    env.pop('DEEP_IN_APP_EXCLUDE', None)
    if env_value is not None:
        env['DEEP_IN_APP_EXCLUDE'] = env_value
    out = subprocess.run([sys.executable, os.path.abspath(__file__), '--child', code_value or '-'], env=env,
                         stdout=subprocess.PIPE, stderr=subprocess.PIPE, universal_newlines=True, timeout=120)
    if out.returncode != 0:
        raise RuntimeError("child failed: %s" % out.stderr)
    return json.loads(out.stdout.strip().splitlines()[-1])


def main():
    value = '/some/vendored/dir'
    from_code = run_case(value, None)
    from_env = run_case(None, value)
    print("IN_APP_EXCLUDE=%r in code        -> is_app_frame = %r" % (value, from_code))
    print("DEEP_IN_APP_EXCLUDE=%r in environ -> is_app_frame = %r" % (value, from_env))
    if from_code != from_env:
        print("FAIL")
        return 1
    print("PASS")
    return 0


if __name__ == '__main__':
    if len(sys.argv) == 3 and sys.argv[1] == '--child':
        child(sys.argv[2])
        sys.exit(0)
    sys.exit(main())
