"""
C19 demo 0 (UNMODIFIED tree): IN_APP_EXCLUDE does not behave identically in code and as DEEP_IN_APP_EXCLUDE.

From the environment the default function appends the interpreter prefix (sys.exec_prefix) to what the user gave.
Given in code the value replaces that function altogether, so the interpreter prefix is no longer excluded.
With the common layout "virtualenv inside the project folder" (APP_ROOT=/srv/project, venv=/srv/project/.venv) every
library frame is then an application frame when the setting is given in code, and not when it is given as environment.

Run: PYTHONPATH=<tree>/src /venv/bin/python demo0.py
"""
import os
import sys

for key in list(os.environ):
    if key.startswith('DEEP_'):
        del os.environ[key]

from deep.config import ConfigService  # noqa: E402

# the application root contains the interpreter prefix (virtualenv inside the project, or APP_ROOT '/' in a container)
APP_ROOT = os.path.dirname(sys.exec_prefix) or '/'
EXCLUDE = '/srv/generated'
library_file = os.path.join(sys.exec_prefix, 'lib', 'python3', 'site-packages', 'grpc', '_channel.py')

in_code = ConfigService({'APP_ROOT': APP_ROOT, 'IN_APP_EXCLUDE': EXCLUDE}).is_app_frame(library_file)

os.environ['DEEP_IN_APP_EXCLUDE'] = EXCLUDE
from_env = ConfigService({'APP_ROOT': APP_ROOT}).is_app_frame(library_file)
del os.environ['DEEP_IN_APP_EXCLUDE']

print("IN_APP_EXCLUDE=%r in code          : is_app_frame(%s) = %r" % (EXCLUDE, library_file, in_code))
print("DEEP_IN_APP_EXCLUDE=%r environment : is_app_frame(%s) = %r" % (EXCLUDE, library_file, from_env))

if in_code != from_env:
    print("FAIL")
    sys.exit(1)
print("PASS")
sys.exit(0)
