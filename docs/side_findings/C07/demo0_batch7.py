"""
C07 demo 0 (UNMODIFIED tree): a watch whose value is the locals dict of the collected frame does not resolve.

The locals of the frame are collected as variable 1 and then 'unwrapped' (removed from the table, their children are
put on the frame). The id cache still maps the dict to id 1, so the watch `locals()` - whose value is that very dict -
is answered with id 1, which is not in the variable table. The same happens for a module level tracepoint with the
watch `globals()`.

Run: PYTHONPATH=<tree>/src /venv/bin/python demo0.py   (prints FAIL, exit 1, on the unmodified tree)
"""
import sys

from deep.api.resource import Resource
from deep.api.tracepoint.trigger import LocationAction, LineLocation, Trigger, Location
from deep.config import ConfigService
from deep.processor.context.trigger_context import TriggerContext


class Cfg(ConfigService):
    @property
    def resource(self):
        return Resource.get_empty()

    @property
    def tracepoint_logger(self):
        return None


class Push:
    def __init__(self):
        self.pushed = []

    def push_snapshot(self, snapshot):
        self.pushed.append(snapshot)


def take_snapshot(frame, config, event='line', arg=None):
    push = Push()
    action = LocationAction('tp1', None, config, LocationAction.ActionType.Snapshot)
    action = Trigger(LineLocation('demo0.py', 1, Location.Position.START), [action]).actions[0]
    with TriggerContext(Cfg({}), push, frame, event, arg) as ctx:
        with ctx.action_context(action) as action_ctx:
            action_ctx.process()
    return push.pushed[0]


def dangling(snapshot):
    table = snapshot.var_lookup
    problems = []
    for frame in snapshot.frames:
        for var_id in frame.variables:
            if var_id.vid not in table:
                problems.append("frame %s: variable %r -> id %s is not in the table"
                                % (frame.method_name, var_id.name, var_id.vid))
    for vid, variable in table.items():
        for child in variable.children:
            if child.vid not in table:
                problems.append("variable %s: child %r -> id %s is not in the table" % (vid, child.name, child.vid))
    for watch in snapshot.watches:
        if watch.result is not None and watch.result.vid not in table:
            problems.append("watch %r (%s) -> id %s is not in the table"
                            % (watch.expression, watch.source, watch.result.vid))
    return problems


def with_watch():
    name = 'bob'
    return take_snapshot(sys._getframe(), {'watches': ['locals()']})


def with_return_value():
    name = 'bob'
    frame = sys._getframe()
    # a 'return' event whose value is the locals dict (def f(): ...; return locals())
    return take_snapshot(frame, {}, 'return', frame.f_locals)


def main():
    problems = dangling(with_watch()) + dangling(with_return_value())
    if problems:
        for problem in problems:
            print(problem)
        print("FAIL")
        return 1
    print("PASS")
    return 0


if __name__ == '__main__':
    sys.exit(main())
