"""
Aside to demo 0 (NOT property C07, UNMODIFIED tree): build_snapshot_action stores the collection limits as ints in the
action config, LocationAction.tracepoint copies the config into TracePointConfig.args, and the protobuf field is
map<string, string> - so every snapshot of a tracepoint that sets a MAX_* argument fails to convert and is lost.

Run:  PYTHONPATH=<tree>/src /venv/bin/python demo0_aside_proto.py     -> prints FAIL (exit 1) on the unmodified tree
"""
import os
import sys

sys.path.insert(0, os.path.dirname(os.path.abspath(__file__)))
import demo2  # noqa: E402  (only for its driver: run(args) -> pushed snapshots)
from deep.push import convert_snapshot  # noqa: E402

bad = []
for args in ({}, {'MAX_VARIABLES': '50'}, {'MAX_TP_PROCESS_TIME': '200'}):
    snapshot = demo2.run(dict(args))[0]
    converted = convert_snapshot(snapshot)
    print(args, '-> tracepoint args', snapshot.tracepoint.args, '-> converted:', converted is not None)
    if converted is None:
        bad.append(args)
print("FAIL" if bad else "PASS")
sys.exit(1 if bad else 0)
