"""
C07 demo 0b (UNMODIFIED tree): method_capture snapshot, an object recorded at the start of the function is freed
before the function returns and the returned (new) object gets its address - and with it its id in the snapshot.

Only the roots given to the id cache are kept alive (the frame's locals dict, watch results), not the objects below
them. Between the snapshot at 'call' and the capture at 'return' the application runs on and can drop them.

Run: PYTHONPATH=<tree>/src /venv/bin/python demo0b.py   -> prints FAIL, exit 1 on the unmodified tree
"""
import os
import sys

from deep.api.resource import Resource
from deep.api.tracepoint.constants import STAGE, METHOD_CAPTURE
from deep.api.tracepoint.trigger import LocationAction, Trigger, FunctionLocation, Location
from deep.config import ConfigService
from deep.processor.trigger_handler import TriggerHandler
from deep.push.push_service import PushService

FILE = os.path.basename(__file__)


class Push(PushService):
    def __init__(self):
        self.pushed = []

    def push_snapshot(self, snapshot):
        self.pushed.append(snapshot)


class Config(ConfigService):
    @property
    def resource(self):
        return Resource.get_empty()


def drain(queue):
    queue.clear()
    return [7, 8, 9]


def attempt(size):
    push = Push()
    handler = TriggerHandler(Config({}), push)
    handler.new_config([Trigger(FunctionLocation(FILE, "drain", Location.Position.START), [
        LocationAction("tp-0b", None, {STAGE: METHOD_CAPTURE}, LocationAction.ActionType.Snapshot)])])
    queue = [[n] for n in range(size)]
    previous = sys.gettrace()
    sys.settrace(handler.trace_call)
    try:
        drain(queue)
    finally:
        sys.settrace(previous)
    snapshot = push.pushed[0]
    result = [w for w in snapshot.watches if w.expression == "return"][0].result
    entry = snapshot.var_lookup[result.vid]
    names = [c.name for v in snapshot.var_lookup.values() for c in v.children if c.vid == result.vid]
    return result.vid, entry, names


def main():
    for i in range(20):
        vid, entry, names = attempt(2 + i % 8)
        if entry.value != "Size: 3":
            print("attempt %d: the returned list [7, 8, 9] is recorded under id %s, the entry of that id is %s %r "
                  "(also child %s of the argument 'queue')" % (i, vid, entry.type, entry.value, names))
            print("FAIL")
            return 1
    print("PASS")
    return 0


if __name__ == "__main__":
    sys.exit(main())
