"""
C07 demo 0 (UNMODIFIED tree): a watch whose value is the namespace of the paused frame.

The variables of a frame are collected as one dict ('locals') that is then unwrapped: its entry is removed from the
variable table and its children become the variables of the frame. The id stays in the id cache. A watch that
evaluates to that same dict (locals(), vars(); globals() when the tracepoint is in module level code or a class body)
is answered from the cache with the removed id, so the watch result does not resolve in the snapshot's table.
(FrameCollector.collect puts the entry back only when a frame variable or a child refers to it - watches are evaluated
after that.)

Run: PYTHONPATH=<tree>/src /venv/bin/python demo0.py   -> prints FAIL, exit 1 on the unmodified tree
"""
import os
import sys

from deep.api.resource import Resource
from deep.api.tracepoint.trigger import build_trigger
from deep.config import ConfigService
from deep.processor.trigger_handler import TriggerHandler
from deep.push.push_service import PushService

FILE = os.path.basename(__file__)


class Push(PushService):
    def __init__(self):
        self.pushed = []

    def push_snapshot(self, snapshot):
        self.pushed.append(snapshot)


class Config(ConfigService):
    @property
    def resource(self):
        return Resource.get_empty()


push = Push()
handler = TriggerHandler(Config({}), push)


def target(name):
    greeting = "hello " + name
    line = sys._getframe().f_lineno + 2
    handler.new_config([build_trigger("tp-0", FILE, line, {}, ["greeting", "locals()"], [])])
    handler.trace_call(sys._getframe(), "line", None)
    return greeting


def main():
    target("bob")
    if len(push.pushed) != 1:
        print("FAIL: expected one snapshot, got %d" % len(push.pushed))
        return 1
    snapshot = push.pushed[0]
    table = snapshot.var_lookup
    bad = []
    for watch in snapshot.watches:
        print("watch %-10r result=%s error=%s" % (watch.expression, watch.result.vid if watch.result else None,
                                                  watch.error))
        if watch.result is not None and watch.result.vid not in table:
            bad.append("watch %r -> id %s is not in the variable table %s" % (watch.expression, watch.result.vid,
                                                                               sorted(table)))
    if bad:
        print("FAIL")
        for line in bad:
            print("   ", line)
        return 1
    print("PASS")
    return 0


if __name__ == "__main__":
    sys.exit(main())
