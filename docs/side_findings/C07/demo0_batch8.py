"""
C07 demo 0 (UNMODIFIED tree): a watch, log field or captured return value that IS the namespace of a collected frame.

The frame collector records the locals dict of a frame as a variable, then "unwraps" it (removes it from the variable
table and puts its children on the frame). It puts the entry back when a frame variable or a child refers to it - but that
is decided at the end of FrameCollector.collect, before the watches, the log fields and the captured return value are
processed. Those find the dict in the id cache and get a reference to the removed entry.

All of it is reachable through the public path: the watches / log_msg / stage of a tracepoint from the service or
register_tracepoint.

Run:  PYTHONPATH=<tree>/src /venv/bin/python demo0.py      -> prints FAIL (exit 1) on the unmodified tree
"""
import builtins
import logging
import os
import sys

from deep import logging as deep_logging
from deep.api.resource import Resource
from deep.api.tracepoint.trigger import build_trigger
from deep.config import ConfigService
from deep.processor.trigger_handler import TriggerHandler
from deep.push.push_service import PushService


class CollectingPush(PushService):
    def __init__(self):
        super().__init__(None, None)
        self.pushed = []

    def push_snapshot(self, snapshot):
        self.pushed.append(snapshot)


class Config(ConfigService):
    @property
    def resource(self):
        return Resource.get_empty()


def dangling(snapshot):
    """List every reference of the snapshot that does not resolve in its variable table."""
    table = snapshot.var_lookup
    bad = []
    for frame in snapshot.frames:
        for var_id in frame.variables:
            if var_id.vid not in table:
                bad.append("frame %s: variable %r -> id %r" % (frame.method_name, var_id.name, var_id.vid))
    for vid, variable in table.items():
        for child in variable.children:
            if child.vid not in table:
                bad.append("variable %s: child %r -> id %r" % (vid, child.name, child.vid))
    for watch in snapshot.watches:
        if watch.result is not None and watch.result.vid not in table:
            bad.append("watch %r -> id %r" % (watch.expression, watch.result.vid))
    return bad




def handle(handler, request):
    user = request['user']
    handler.trace_call(sys._getframe(), 'line', None)
    return user


HANDLE_LINE = handle.__code__.co_firstlineno + 2

MODULE = """\
import sys
settings = {'debug': True}
handler.trace_call(sys._getframe(), 'line', None)
done = True
"""
MODULE_LINE = 3


def new_handler(trigger):
    config = Config({})
    deep_logging.init(config)
    logging.disable(logging.CRITICAL)  # the agent logs what it catches, keep the output of the demo readable
    push = CollectingPush()
    handler = TriggerHandler(config, push)
    handler.new_config([trigger])
    return handler, push


def in_function(args, watches):
    handler, push = new_handler(build_trigger('tp-1', os.path.basename(__file__), HANDLE_LINE, args, watches, []))
    handle(handler, {'user': 'ann'})
    return push.pushed


def in_module(args, watches):
    handler, push = new_handler(build_trigger('tp-1', 'demo0_target.py', MODULE_LINE, args, watches, []))
    exec(compile(MODULE, '/app/demo0_target.py', 'exec'),
         {'handler': handler, '__name__': 'demo0_target', '__builtins__': builtins})
    return push.pushed


def main():
    failures = []
    cases = [
        ("function frame, watch locals()", in_function, {}, ['locals()']),
        ("function frame, watch [user, locals()]", in_function, {}, ['[user, locals()]']),
        ("function frame, log_msg {vars()}", in_function, {'log_msg': 'scope={vars()}'}, []),
        ("module frame, watch globals()", in_module, {}, ['globals()']),
    ]
    for name, run, args, watches in cases:
        pushed = run(dict(args), list(watches))
        if len(pushed) != 1:
            failures.append("%s: expected one snapshot, got %d" % (name, len(pushed)))
            continue
        for problem in dangling(pushed[0]):
            failures.append("%s: %s does not resolve in the variable table (ids in the table: %s)"
                            % (name, problem, sorted(pushed[0].var_lookup.keys())))
    if failures:
        for failure in failures:
            print(failure)
        print("FAIL")
        return 1
    print("PASS")
    return 0


if __name__ == '__main__':
    sys.exit(main())
