"""
C11 demo 0 (unmodified tree): a method tracepoint given by its line only - stage=method_start (or span=method) without
a method_name - never acts. build_trigger places it on a FunctionLocation without a name, which is to discover the
method from the frame; FunctionLocation.at_location tests `start <= line >= end`, which no line of the method satisfies.
"""
import os
import sys

from deepproto.proto.tracepoint.v1.tracepoint_pb2 import TracePointConfig

from deep.api.plugin import TracepointLogger
from deep.api.resource import Resource
from deep.config import ConfigService
from deep.grpc import convert_response
from deep.processor.trigger_handler import TriggerHandler
from deep.push.push_service import PushService


class Push(PushService):
    def __init__(self):
        super().__init__(None, None)
        self.pushed = []

    def push_snapshot(self, snapshot):
        self.pushed.append(snapshot)


class Logger(TracepointLogger):
    def __init__(self):
        self.logged = []

    def log_tracepoint(self, log_msg, tp_id, ctx_id):
        self.logged.append((tp_id, log_msg))


class Config(ConfigService):
    def __init__(self):
        super().__init__({})
        self.logger = Logger()

    @property
    def tracepoint_logger(self):
        return self.logger

    @property
    def resource(self):
        return Resource.get_empty()


def target(arg):
    val = arg + "something"  # TP
    return val


FILE = os.path.basename(__file__)
with open(__file__) as source:
    LINE = [i + 1 for i, text in enumerate(source) if text.rstrip().endswith("# TP")][0]


def run(tracepoints):
    config = Config()
    push = Push()
    handler = TriggerHandler(config, push)
    config.tracepoints.update_new_config(1, "hash", convert_response(tracepoints))
    config.tracepoints.update_listeners(1, None, "hash", [], None)
    sys.settrace(handler.trace_call)
    try:
        target("input")
    finally:
        sys.settrace(None)
    snaps = sorted(s.tracepoint.id for s in push.pushed)
    logs = sorted(config.logger.logged)
    return snaps, logs


failures = []

response = [
    TracePointConfig(ID="named", path=FILE, line_number=LINE, args={"stage": "method_start", "method_name": "target"}),
    TracePointConfig(ID="by-line", path=FILE, line_number=LINE, args={"stage": "method_start"}),
    TracePointConfig(ID="span-method", path=FILE, line_number=LINE, args={"span": "method"}),
]
snaps, logs = run(response)
print("snapshots:", snaps)
expected_snaps = ["by-line", "named", "span-method"]
if snaps != expected_snaps:
    print("  - snapshots are %s, expected %s" % (snaps, expected_snaps))
    print("FAIL")
    sys.exit(1)
print("PASS")
