"""
Demo 0 (C11, UNMODIFIED tree): a tracepoint that carries a collection limit as an argument never delivers its snapshot.

Tracepoint arguments are text (the `args` map of a poll response; the same for register_tracepoint). Since the limits
(MAX_STRING_LENGTH, MAX_COLLECTION_SIZE, MAX_VARIABLES, MAX_VAR_DEPTH, MAX_TP_PROCESS_TIME) are forwarded into the
snapshot action, build_snapshot_action stores them as int. LocationAction.tracepoint copies the action config into the
args of the TracePointConfig that is attached to the snapshot, and deep.push.convert_snapshot hands those args to the
protobuf map<string, string> - which refuses the int, convert_snapshot logs "Error converting to protobuf", returns None
and PushService._push_task silently drops the snapshot.

So: "a snapshot unless collection is switched off" does not hold for a tracepoint with e.g. MAX_STRING_LENGTH=10.

Run: PYTHONPATH=<tree>/src /venv/bin/python demo0.py     (prints FAIL, exit 1, on the unmodified tree)
"""
import logging as py_logging
import os
import sys

# noinspection PyUnresolvedReferences
from deepproto.proto.tracepoint.v1.tracepoint_pb2 import TracePointConfig as PbTracePointConfig

from deep.api.deep import Deep
from deep.api.resource import Resource
from deep.config import ConfigService
from deep.config.tracepoint_config import TracepointConfigService
from deep.grpc import convert_response
from deep.push import convert_snapshot

py_logging.disable(py_logging.CRITICAL)


def target(name):
    greeting = "hello " + name * 10
    return greeting  # <- tracepoints on this line


TARGET_LINE = target.__code__.co_firstlineno + 2
THIS_FILE = os.path.basename(__file__)


class SentRecorder:
    """Stands in for the task handler + grpc stub of PushService: runs the real conversion, records what would go out."""

    def __init__(self):
        self.taken = []
        self.sent = []

    def push_snapshot(self, snapshot):
        self.taken.append(snapshot.tracepoint.id)
        converted = convert_snapshot(snapshot)  # what PushService._push_task does
        if converted is not None:
            self.sent.append(converted.tracepoint.ID)


def main():
    config = ConfigService({}, tracepoints=TracepointConfigService())
    deep = Deep(config)
    push = SentRecorder()
    config.resource = Resource.create()
    deep.trigger_handler._push_service = push

    response = [
        PbTracePointConfig(ID="plain", path=THIS_FILE, line_number=TARGET_LINE, args={'fire_count': '1'}),
        PbTracePointConfig(ID="limited", path=THIS_FILE, line_number=TARGET_LINE,
                           args={'fire_count': '1', 'MAX_STRING_LENGTH': '10'}),
    ]
    config.tracepoints.update_new_config(1, "hash-1", convert_response(response))
    deep.task_handler.flush()
    deep.task_handler.open()
    # the same through the in-code entry point
    deep.register_tracepoint(THIS_FILE, TARGET_LINE, {'fire_count': '1', 'MAX_VAR_DEPTH': '2'})
    deep.task_handler.flush()
    deep.task_handler.open()

    deep.trigger_handler.start()
    try:
        target("world")
    finally:
        deep.trigger_handler.shutdown()
        sys.settrace(None)

    print("snapshots taken:", len(push.taken), sorted(t if t in ('plain', 'limited') else 'in-code' for t in push.taken))
    print("snapshots that can be sent:", len(push.sent), sorted(push.sent))
    if len(push.taken) == 3 and len(push.sent) == 3:
        print("PASS")
        return 0
    print("FAIL: the tracepoints with a collection limit argument lose their snapshot on the way to the service")
    return 1


if __name__ == '__main__':
    sys.exit(main())
