"""
C11 demo 0 (UNMODIFIED tree): the fire count of a tracepoint is not kept when two threads hit it at the same time.

One tracepoint from the service with the default limits (fire_count=1): it must produce ONE snapshot.
Two threads run target() at the same moment. The check of the limit (LocationAction.can_trigger) and the recording of
the fire (ActionContext.__exit__ -> record_triggered) are not atomic and the condition / the collection run in between,
so both threads pass the check. The condition only sleeps to make the overlap certain; it is an ordinary expression.
"""
import inspect
import os
import sys
import threading

from deepproto.proto.poll.v1.poll_pb2 import PollResponse, ResponseType
from deepproto.proto.tracepoint.v1.tracepoint_pb2 import TracePointConfig

from deep.api.resource import Resource
from deep.config import ConfigService
from deep.config.tracepoint_config import TracepointConfigService
from deep.grpc import convert_response
from deep.processor.trigger_handler import TriggerHandler


def slow_check():
    import time
    time.sleep(0.2)
    return True


def target(value):
    doubled = value * 2  # TRACEPOINT LINE
    return doubled


def line_of(func, marker):
    lines, start = inspect.getsourcelines(func)
    for idx, text in enumerate(lines):
        if marker in text:
            return start + idx
    raise AssertionError(marker)


class Push:
    def __init__(self):
        self.pushed = []

    def push_snapshot(self, snapshot):
        self.pushed.append(snapshot)


def main():
    this_file = os.path.basename(__file__)
    line = line_of(target, 'TRACEPOINT LINE')

    tracepoints = TracepointConfigService()
    config = ConfigService({}, tracepoints=tracepoints)
    config.resource = Resource.get_empty()
    config.plugins = []
    push = Push()
    handler = TriggerHandler(config, push)

    response = PollResponse(ts_nanos=1, current_hash="h1", response_type=ResponseType.UPDATE, response=[
        TracePointConfig(ID="once", path=this_file, line_number=line, args={'condition': 'slow_check()'})])
    tracepoints.update_new_config(response.ts_nanos, response.current_hash, convert_response(response.response))
    handler.new_config(tracepoints.current_config)

    barrier = threading.Barrier(2)

    def body(value):
        barrier.wait()
        sys.settrace(handler.trace_call)
        try:
            target(value)
        finally:
            sys.settrace(None)

    threads = [threading.Thread(target=body, args=(i,)) for i in range(2)]
    for thread in threads:
        thread.start()
    for thread in threads:
        thread.join(30)

    count = len(push.pushed)
    if count != 1:
        print("fire_count=1 (default), yet %d snapshots were pushed for tracepoint 'once'" % count)
        print("FAIL")
        return 1
    print("PASS")
    return 0


if __name__ == '__main__':
    sys.exit(main())
