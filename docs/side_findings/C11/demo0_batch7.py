"""
C11 demo 0 (UNMODIFIED tree): the tracepoint's own condition is documented as "has to be 'truthy' for this tracepoint to
fire" (src/deep/api/tracepoint/constants.py, CONDITION). A condition whose value is truthy in Python but whose text is
not one of yes/true/t/1/y never fires: `value` (= 5), `len(items)` (= 2), `items` (a non empty list), `name` ('bob').

Run: PYTHONPATH=<tree>/src /venv/bin/python demo0.py      (prints FAIL / exit 1 on the unmodified tree)
"""
import os
import sys

# noinspection PyUnresolvedReferences
from deepproto.proto.tracepoint.v1.tracepoint_pb2 import TracePointConfig

from deep.api.resource import Resource
from deep.config import ConfigService
from deep.config.tracepoint_config import TracepointConfigService
from deep.grpc import convert_response
from deep.processor.trigger_handler import TriggerHandler
from deep.push.push_service import PushService


def target(value, items, name):
    first = value + 1       # line X
    return first, items, name


LINE_X = target.__code__.co_firstlineno + 1
FILE = os.path.basename(__file__)


class Config(ConfigService):
    def __init__(self):
        super().__init__({}, TracepointConfigService())

    @property
    def resource(self):
        return Resource.get_empty()


class Push(PushService):
    def __init__(self):
        super().__init__(None, None)
        self.pushed = []

    def push_snapshot(self, snapshot):
        self.pushed.append(snapshot)


def fires(condition):
    push = Push()
    handler = TriggerHandler(Config(), push)
    handler.new_config(convert_response(
        [TracePointConfig(ID="tp", path=FILE, line_number=LINE_X, args={"condition": condition})]))
    sys.settrace(handler.trace_call)
    try:
        target(5, ['a', 'b'], 'bob')
    finally:
        sys.settrace(None)
    return len(push.pushed)


def main():
    ok = True
    # (condition, is its value truthy at the tracepoint)
    for condition, truthy in [("value == 5", True), ("value == 6", False), ("value - 4", True),
                              ("value", True), ("len(items)", True), ("items", True), ("name", True),
                              ("value - 5", False), ("[]", False)]:
        got = fires(condition)
        good = got == (1 if truthy else 0)
        print("condition %-12r truthy=%-5s snapshots=%d -> %s" % (condition, truthy, got, "ok" if good else "WRONG"))
        ok = ok and good
    if ok:
        print("PASS")
        return 0
    print("FAIL: a truthy condition did not let the tracepoint fire")
    return 1


if __name__ == '__main__':
    sys.exit(main())
