"""
C08 demo 0 - snapshots that the UNMODIFIED tree collects but never sends (prints FAIL / exit 1 on the unmodified tree).

c6b20e2 made text safe for protobuf (lone surrogates are replaced) for variable values, variable names, watch
expressions / errors and the log message.  The other text fields of a snapshot, and its attribute values, still go to
protobuf as they are, so one value protobuf refuses costs the WHOLE snapshot (convert_snapshot logs and returns None, and
PushService sends nothing).

Every case drives the real pipeline: build_trigger -> TriggerHandler (sys.settrace) -> collector -> PushService ->
convert_snapshot -> SnapshotServiceStub.send on a fake channel.

Run: PYTHONPATH=<tree>/src /venv/bin/python demo0.py
"""
import logging
import os
import sys
from concurrent.futures import Future

logging.disable(logging.CRITICAL)

from deepproto.proto.tracepoint.v1.tracepoint_pb2 import Snapshot  # noqa: E402

from deep.api.plugin import SnapshotDecorator  # noqa: E402
from deep.api.resource import Resource  # noqa: E402
from deep.api.tracepoint.trigger import build_trigger  # noqa: E402
from deep.config import ConfigService  # noqa: E402
from deep.grpc import GRPCService  # noqa: E402
from deep.processor.trigger_handler import TriggerHandler  # noqa: E402
from deep.push import PushService  # noqa: E402


class InlineTaskHandler:
    def submit_task(self, task, *args):
        future = Future()
        try:
            future.set_result(task(*args))
        except BaseException as e:  # noqa
            future.set_exception(e)
        return future


class FakeChannel:
    def __init__(self):
        self.sent = []

    def unary_unary(self, method, request_serializer=None, response_deserializer=None, **_):
        def call(request, metadata=None, **__):
            self.sent.append((method, request_serializer(request), metadata))

        return call


class RecordingPushService(PushService):
    def __init__(self, grpc, task_handler):
        super().__init__(grpc, task_handler)
        self.collected = []

    def push_snapshot(self, snapshot):
        self.collected.append(snapshot)
        super().push_snapshot(snapshot)


class Decorator(SnapshotDecorator):
    def __init__(self, attributes):
        super().__init__()
        self.attributes = attributes

    def decorate(self, snapshot_id, context):
        return self.attributes


def target(value):
    kept = value  # TRACEPOINT LINE
    return kept


def tracepoint_line():
    with open(__file__) as f:
        for no, text in enumerate(f, start=1):
            if text.rstrip().endswith('# TRACEPOINT LINE') and 'endswith' not in text:
                return no
    raise AssertionError("no tracepoint line")


ODD_PATH = '/srv/app/caf\udce9/mod.py'  # what os.fsdecode gives for a latin-1 directory name on a utf-8 system
_namespace = {}
exec(compile("def odd_target(value):\n    kept = value\n    return kept\n", ODD_PATH, 'exec'), _namespace)
odd_target = _namespace['odd_target']


def run(value, decoration=None, function=target, path=None, line=None):
    config = ConfigService({'NO_TRACE': False})
    config.resource = Resource.create({'service.name': 'demo'})
    if decoration is not None:
        config.plugins = [Decorator(decoration)]
    grpc = GRPCService(config)
    grpc.channel = FakeChannel()
    push = RecordingPushService(grpc, InlineTaskHandler())
    handler = TriggerHandler(config, push)
    handler.new_config([build_trigger('tp-1', path or os.path.basename(__file__), line or tracepoint_line(), {}, [],
                                      [])])
    handler.start()
    try:
        function(value)
    finally:
        handler.shutdown()
        sys.settrace(None)
    return push.collected, [Snapshot.FromString(payload) for _, payload, _ in grpc.channel.sent]


def main():
    cases = [
        ("plain value (control)", 'hello', None),
        ("decorator attribute text with a lone surrogate, e.g. an os.fsdecode'd path", 'hello',
         {'cwd': '/srv/app/\udcff'}),
        ("decorator attribute int beyond int64", 'hello', {'big': 2 ** 70}),
        ("decorator attribute sequence with a None element (accepted by BoundedAttributes)", 'hello',
         {'tags': ['a', None, 'b']}),
    ]
    problems = []
    runs = [(label, run(value, decoration)) for label, value, decoration in cases]
    runs.append(("module loaded from a path with an undecodable byte (StackFrame.file_name is not made safe)",
                 run('hello', None, odd_target, 'mod.py', 2)))
    for label, (collected, sent) in runs:
        state = "collected=%d sent=%d" % (len(collected), len(sent))
        print("%-90s %s" % (label, state))
        if len(collected) == 1 and len(sent) != 1:
            problems.append("%s: the collector produced a snapshot, the service received nothing" % label)
        elif len(collected) != 1:
            problems.append("%s: demo precondition - nothing collected" % label)
    if problems:
        print("FAIL")
        for p in problems:
            print("  -", p)
        return 1
    print("PASS")
    return 0


if __name__ == '__main__':
    sys.exit(main())
