"""
C08 demo 0 - a violation that is ALREADY in the unmodified tree.

A tracepoint that arrives from the service with a collection limit among its (text) arguments, here
MAX_STRING_LENGTH='5', is collected - and the snapshot never reaches the service: build_snapshot_action stores the limit
as an int in the action config, LocationAction.tracepoint copies the action config into the args of the snapshot's
tracepoint, and the wire type of the args is map<string, string>: the protobuf constructor raises TypeError in
__convert_tracepoint, convert_snapshot logs "Error converting to protobuf" and returns None, _push_task drops the
snapshot silently.

Same harness as demo2: deep.start() with only the third-party grpc channel replaced by a fake service.

Prints PASS / exits 0 when every collected snapshot is received by the service, FAIL / exits 1 otherwise
(FAIL on the unmodified tree).
"""
import os
import sys
import time

import grpc

# noinspection PyUnresolvedReferences
from deepproto.proto.poll.v1.poll_pb2 import PollResponse, ResponseType
# noinspection PyUnresolvedReferences
from deepproto.proto.tracepoint.v1.tracepoint_pb2 import TracePointConfig, Snapshot, SnapshotResponse, WatchSource


def target(order):
    total = order * 2
    return total  # <- the tracepoint is on this line


TP_LINE = target.__code__.co_firstlineno + 2
TP_FILE = os.path.basename(__file__)


class FakeChannel:
    """Plays the service."""

    def __init__(self):
        self.polls = []
        self.snapshots = []

    # noinspection PyUnusedLocal
    def unary_unary(self, method, request_serializer=None, response_deserializer=None, **kwargs):
        def call(request, metadata=None, **kw):
            data = request_serializer(request)  # the message has to survive serialisation
            if 'poll' in method.lower():
                self.polls.append((data, metadata))
                return PollResponse(ts_nanos=time.time_ns(), current_hash="hash-1",
                                    response_type=ResponseType.UPDATE,
                                    response=[TracePointConfig(ID="tp-1", path=TP_FILE, line_number=TP_LINE,
                                                               args={'MAX_STRING_LENGTH': '5',
                                                                     'fire_count': '1'},
                                                               watches=['order'])])
            received = Snapshot()
            received.ParseFromString(data)
            self.snapshots.append((received, metadata))
            return SnapshotResponse()

        return call


def main():
    channel = FakeChannel()
    grpc.insecure_channel = lambda *args, **kwargs: channel
    grpc.secure_channel = lambda *args, **kwargs: channel

    import deep
    agent = deep.start({'SERVICE_SECURE': 'False', 'SERVICE_URL': 'localhost:1', 'POLL_TIMER': 3600})
    collected = []
    try:
        # keep what the agent collects, to compare it with what the service receives
        original_push = agent.push.push_snapshot

        def recording_push(snapshot):
            collected.append(snapshot)
            original_push(snapshot)

        agent.push.push_snapshot = recording_push

        # the new config is handed to the trigger handler on a worker thread
        deadline = time.time() + 10
        while len(agent.trigger_handler._tp_config) == 0 and time.time() < deadline:
            time.sleep(0.05)

        target(21)
    finally:
        agent.shutdown()  # flushes the pending uploads

    problems = []
    if len(collected) != 1:
        problems.append("expected 1 collected snapshot, got %d" % len(collected))
    if len(channel.snapshots) != len(collected):
        problems.append("collected %d snapshots, the service received %d" % (len(collected), len(channel.snapshots)))

    for snapshot, (received, _) in zip(collected, channel.snapshots):
        expected = [(w.expression, w.source, w.result.vid if w.result is not None else None, w.error)
                    for w in snapshot.watches]
        actual = [(w.expression, WatchSource.Name(w.source),
                   w.good_result.ID if w.WhichOneof("result") == "good_result" else None,
                   w.error_result if w.WhichOneof("result") == "error_result" else None)
                  for w in received.watches]
        print("collected watch results:", expected)
        print("received  watch results:", actual)
        if expected != actual:
            problems.append("the watch results received are not the watch results collected")
        if received.ID != snapshot.id.to_bytes(16, 'big'):
            problems.append("snapshot id differs")

    if problems:
        for problem in problems:
            print("problem:", problem)
        print("FAIL")
        return 1
    print("PASS")
    return 0


if __name__ == '__main__':
    sys.exit(main())
