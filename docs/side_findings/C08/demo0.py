"""
C08 demo 0 - snapshots the collector produces on the UNMODIFIED tree that never reach the service.

convert_snapshot() only makes the texts of variable values / names / watch expressions / log message safe for
protobuf (deep.push.__text). Every other text or number of the snapshot goes into the protobuf constructor as it is,
a single value protobuf does not accept raises in there, convert_snapshot() logs "Error converting to protobuf",
returns None and the push task drops the WHOLE snapshot.

Three ways to get there with the real trigger handler / collector / push service (fake channel):

 1. a caller frame whose file name is not valid UTF-8 on disk (python reports such names with lone surrogates,
    os.fsdecode / surrogateescape) - the property explicitly quantifies over lone surrogates;
 2. a resource attribute that is an int beyond 64 bit (accepted by Resource / BoundedAttributes);
 3. a tracepoint whose args hold a number instead of a text (e.g. Deep.register_tracepoint(..., {'fire_count': 2})).

Run: PYTHONPATH=<tree>/src /venv/bin/python demo0.py    (prints FAIL / exit 1 on the unmodified tree)
"""
import logging
import os
import runpy
import sys
import tempfile
import threading
from concurrent.futures import Future

from deep.api.resource import Resource
from deep.api.tracepoint.trigger import build_trigger
from deep.config import ConfigService
from deep.config.tracepoint_config import TracepointConfigService
from deep.processor.trigger_handler import TriggerHandler
from deep.push import PushService
# noinspection PyUnresolvedReferences
from deepproto.proto.tracepoint.v1.tracepoint_pb2 import Snapshot

logging.disable(logging.CRITICAL)


def handle_request(order):
    total = order * 2
    return total  # TRACEPOINT


class FakeChannel:
    def __init__(self):
        self.received = []

    def unary_unary(self, method, request_serializer=None, response_deserializer=None, **_):
        def call(request, metadata=None, **__):
            self.received.append(request_serializer(request))

        return call


class FakeGrpc:
    def __init__(self):
        self.channel = FakeChannel()

    @staticmethod
    def metadata():
        return []


class InlineTasks:
    @staticmethod
    def submit_task(task, *args):
        future = Future()
        try:
            future.set_result(task(*args))
        except Exception as e:
            future.set_exception(e)
        return future


class RecordingPushService(PushService):
    def __init__(self, grpc, task_handler):
        super().__init__(grpc, task_handler)
        self.collected = []

    def push_snapshot(self, snapshot):
        self.collected.append(snapshot)
        super().push_snapshot(snapshot)


def tracepoint_line():
    with open(__file__) as source:
        for number, text in enumerate(source, start=1):
            if text.rstrip().endswith("# TRACEPOINT"):
                return number
    raise RuntimeError("no tracepoint line")


def run(name, application, resource_attributes=None, args=None):
    config = ConfigService({}, tracepoints=TracepointConfigService())
    attributes = {'service.name': 'demo0'}
    attributes.update(resource_attributes or {})
    config.resource = Resource.create(attributes)
    grpc = FakeGrpc()
    push = RecordingPushService(grpc, InlineTasks())
    handler = TriggerHandler(config, push)
    handler.new_config([build_trigger('tp-1', os.path.basename(__file__), tracepoint_line(), args or {}, [], [])])

    def traced():
        sys.settrace(handler.trace_call)
        try:
            application()
        finally:
            sys.settrace(None)

    thread = threading.Thread(target=traced)
    thread.start()
    thread.join()
    collected, received = len(push.collected), len(grpc.channel.received)
    ok = collected == 1 and received == 1
    if ok:
        Snapshot().ParseFromString(grpc.channel.received[0])
    print("  %-45s collected %s snapshot(s), the service received %s  %s" % (
        name, collected, received, "ok" if ok else "<-- LOST"))
    return ok


def main():
    results = [run("baseline", lambda: handle_request(21))]

    # 1. the application is started from a script whose name is latin-1 on disk ('café_main.py')
    directory = os.fsencode(tempfile.mkdtemp(prefix="c08_demo0_"))
    script = os.path.join(directory, b'caf\xe9_main.py')
    with open(script, 'wb') as out:
        out.write(b"def main(handler):\n    return handler(21)\n")
    script_name = os.fsdecode(script)  # what python itself uses as co_filename for this file: has a lone surrogate
    module = runpy.run_path(script_name)
    results.append(run("caller file name is not UTF-8 on disk", lambda: module['main'](handle_request)))

    # 2. a resource attribute that is a (valid, accepted) int that does not fit 64 bit
    results.append(run("resource attribute int beyond 64 bit", lambda: handle_request(21),
                       resource_attributes={'build.id': 2 ** 64 + 1}))

    # 3. a tracepoint arg given as a number
    results.append(run("tracepoint arg given as a number", lambda: handle_request(21), args={'fire_count': 2}))

    if all(results):
        print("PASS")
        return 0
    print("FAIL")
    return 1


if __name__ == '__main__':
    sys.exit(main())
