"""
C16 demo 0 (unmodified tree): LogActionResult.process tests the configured tracepoint logger for truth, not for None.
A logger plugin that defines __len__ (here: it buffers messages) is falsy while empty, so it never gets a message.
"""
import os
import sys

from deep.api.plugin import TracepointLogger
from deep.api.resource import Resource
from deep.api.tracepoint.trigger import build_trigger
from deep.config import ConfigService
from deep.config.tracepoint_config import TracepointConfigService
from deep.processor.trigger_handler import TriggerHandler
from deep.push import PushService


class Push(PushService):
    def __init__(self):
        super().__init__(None, None)
        self.pushed = []

    def push_snapshot(self, snapshot):
        self.pushed.append(snapshot)


class Logger(TracepointLogger):
    def __init__(self):
        self.logged = []

    def log_tracepoint(self, log_msg, tp_id, ctx_id):
        self.logged.append((log_msg, tp_id, ctx_id))


class Config(ConfigService):
    def __init__(self, plugins):
        super().__init__({'APP_ROOT': os.path.dirname(os.path.abspath(__file__))}, TracepointConfigService())
        # the tracepoint logger is whatever plugin of that kind is loaded (ConfigService.tracepoint_logger)
        self.plugins = plugins

    @property
    def resource(self):
        return Resource.get_empty()


def target(items, label):
    total = len(items)  # TRACEPOINT LINE
    return total


def line_of(marker):
    with open(os.path.abspath(__file__)) as f:
        for no, text in enumerate(f, 1):
            if text.rstrip().endswith(marker):
                return no
    raise AssertionError("marker not found")


def run(args, plugins):
    config = Config(plugins)
    push = Push()
    handler = TriggerHandler(config, push)
    trigger = build_trigger("tp-1", os.path.basename(__file__), line_of("# TRACEPOINT LINE"), args, [], [])
    handler.new_config([trigger])
    items = ["item-%d" % i for i in range(8)]
    sys.settrace(handler.trace_call)
    try:
        target(items, "hello")
    finally:
        sys.settrace(None)
    return push.pushed


class BufferingLogger(TracepointLogger):
    """A logger that keeps the messages and reports how many it holds (so it is falsy while it is empty)."""

    def __init__(self):
        self.logged = []

    def __len__(self):
        return len(self.logged)

    def log_tracepoint(self, log_msg, tp_id, ctx_id):
        self.logged.append((log_msg, tp_id, ctx_id))


def main():
    args = {'log_msg': "label={label} n={len(items)}", 'snapshot': 'no_collect'}
    expected = "[deep] label=hello n=8"
    plain = Logger()
    run(dict(args), [plain])
    buffering = BufferingLogger()
    run(dict(args), [buffering])
    print("plain logger got:", [m for m, _, _ in plain.logged])
    print("buffering logger got:", [m for m, _, _ in buffering.logged])
    if [m for m, _, _ in plain.logged] == [expected] and [m for m, _, _ in buffering.logged] == [expected]:
        print("PASS")
        return 0
    print("FAIL")
    return 1


if __name__ == '__main__':
    sys.exit(main())
