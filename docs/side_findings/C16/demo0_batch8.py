"""
C16 demo 0 (unmodified tree): a tracepoint logger configured through the public path (the PLUGINS setting of
deep.start) never receives the messages: the built in PythonPlugin is also a TracepointLogger, is loaded first, and
ConfigService.tracepoint_logger returns the first logger it finds.

Run as: PYTHONPATH=<tree>/src /venv/bin/python demo0.py
Prints PASS (exit 0) when the configured logger gets the message, FAIL (exit 1) when it does not.
"""
import logging
import os
import sys
from concurrent.futures import Future

from deep.api.plugin import TracepointLogger, load_plugins
from deep.api.resource import Resource
from deep.config import ConfigService
from deep.config.tracepoint_config import TracepointConfigService
from deep.processor.trigger_handler import TriggerHandler

LOGGED = []


class MyTracepointLogger(TracepointLogger):
    """The logger the user configures: PLUGINS=['<module>.MyTracepointLogger']."""

    def log_tracepoint(self, log_msg, tp_id, ctx_id):
        LOGGED.append((log_msg, tp_id, ctx_id))


class SyncTaskHandler:
    def submit_task(self, task, *args):
        future = Future()
        future.set_result(task(*args))
        return future


class RecordingPush:
    def push_snapshot(self, snapshot):
        pass


def target(value):
    doubled = value * 2
    return doubled  # TARGET LINE


def target_line():
    import inspect
    lines, start = inspect.getsourcelines(target)
    for offset, text in enumerate(lines):
        if 'TARGET LINE' in text:
            return start + offset
    raise RuntimeError("no target line")


def main():
    logging.getLogger("deep").setLevel(logging.CRITICAL)
    plugin_name = "%s.MyTracepointLogger" % __name__
    config = ConfigService({'PLUGINS': [plugin_name]}, tracepoints=TracepointConfigService())
    # exactly what Deep.start does with the setting
    config.plugins = load_plugins(config, config.PLUGINS)
    config.resource = Resource.create()
    config.set_task_handler(SyncTaskHandler())
    handler = TriggerHandler(config, RecordingPush())

    loaded = [type(plugin).__name__ for plugin in config.plugins]
    if 'MyTracepointLogger' not in loaded:
        print("the configured plugin was not loaded at all: %s" % loaded)
        print("FAIL")
        return 1

    config.tracepoints.add_custom(os.path.basename(__file__), target_line(),
                                  {'log_msg': 'doubled {doubled}', 'snapshot': 'no_collect'}, [], [])
    sys.settrace(handler.trace_call)
    try:
        target(21)
    finally:
        sys.settrace(None)

    print("loaded plugins: %s" % loaded)
    print("logger in use: %s" % type(config.tracepoint_logger).__name__)
    if [entry[0] for entry in LOGGED] != ['[deep] doubled 42']:
        print("the configured tracepoint logger received %r" % LOGGED)
        print("FAIL")
        return 1
    print("PASS")
    return 0


if __name__ == '__main__':
    sys.exit(main())
