"""
C16 demo 0 (observation on the UNMODIFIED tree): a call / index expression whose text contains a '}' (inside a string
literal or a dict literal) is cut at that brace, so the field is not "replaced by the string form of that expression".

Run: PYTHONPATH=<tree>/src /venv/bin/python demo0.py
"""
import logging as std_logging
import sys

from deep.processor.context.log_action import LogActionContext
from deep.processor.context.trigger_context import TriggerContext


def main():
    std_logging.disable(std_logging.CRITICAL)
    s = 'a}b}'  # noqa: F841
    frame = sys._getframe()
    failures = []
    for template, expected, fields in [
        ("n={s.count('}')}", "[deep] n=2", ["s.count('}')"]),
        ("v={ {'k': 2}['k'] }", "[deep] v=2", [" {'k': 2}['k'] "]),
    ]:
        ctx = LogActionContext(TriggerContext(None, None, frame, 'line', None), None)
        log, watches, _ = ctx.process_log(template)
        got_fields = [w.expression for w in watches]
        if log != expected or got_fields != fields:
            failures.append("template %r: message %r (expected %r), fields %r (expected %r)"
                            % (template, log, expected, got_fields, fields))
    if failures:
        print("FAIL")
        for f in failures:
            print("  " + f)
        return 1
    print("PASS")
    return 0


if __name__ == '__main__':
    sys.exit(main())
