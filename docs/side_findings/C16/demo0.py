"""
C16 demo 0: the UNMODIFIED tree already loses whole log messages for some call expressions / failing expressions.

1. A call expression whose argument is a string literal holding ':' or '!' - e.g. {s.split(':')} or {greet('hi!')}.
   string.Formatter splits the field at the first ':' / '!' outside square brackets (format spec / conversion), so
   the expression is cut in two; the remainder is then used as a format spec / conversion and raises ValueError out of
   vformat. No message is produced at all (the property asks for the value, or at the very least the error text with
   the rest of the message). When the tracepoint also collects, the snapshot is lost with it.
2. A field whose evaluation raises an exception whose own __str__ raises: eval_watch calls str(e) unguarded in its
   except branch, so the error escapes and again the whole message (and snapshot) is lost instead of the field being
   replaced by an error text.

Run: PYTHONPATH=<tree>/src /venv/bin/python demo0.py      (prints FAIL / exit 1 on the unmodified tree)
"""
import inspect
import logging as std_logging
import os
import sys

from deep.api.plugin import TracepointLogger
from deep.api.resource import Resource
from deep.api.tracepoint.constants import LOG_MSG, FIRE_COUNT, SNAPSHOT, NO_COLLECT
from deep.api.tracepoint.trigger import build_trigger
from deep.config import ConfigService
from deep.processor.trigger_handler import TriggerHandler

std_logging.disable(std_logging.CRITICAL)


class CapturingLogger(TracepointLogger):
    def __init__(self):
        super().__init__()
        self.logged = []

    def log_tracepoint(self, log_msg, tp_id, ctx_id):
        self.logged.append(log_msg)


class CapturingPush:
    def __init__(self):
        self.pushed = []

    def push_snapshot(self, snapshot):
        self.pushed.append(snapshot)


class NoText(Exception):
    def __str__(self):
        raise RuntimeError("no text for this error")


class Account:
    @property
    def balance(self):
        raise NoText()


def greet(text):
    return text.upper()


def target(s, account):
    sep = ':'
    done = sep  # TRACEPOINT LINE
    return done


def tracepoint_line():
    lines, start = inspect.getsourcelines(target)
    for offset, line in enumerate(lines):
        if "TRACEPOINT LINE" in line:
            return start + offset
    raise AssertionError("line not found")


def hit(template, collect):
    config = ConfigService({})
    tp_logger = CapturingLogger()
    config.plugins = [tp_logger]
    config.resource = Resource.get_empty()
    push = CapturingPush()
    handler = TriggerHandler(config, push)
    args = {LOG_MSG: template, FIRE_COUNT: '1'}
    if not collect:
        args[SNAPSHOT] = NO_COLLECT
    handler.new_config([build_trigger("tp-0", os.path.basename(__file__), tracepoint_line(), args, [], [])])
    previous = sys.gettrace()
    sys.settrace(handler.trace_call)
    try:
        target("a:b", Account())
    finally:
        sys.settrace(previous)
    return tp_logger.logged, push.pushed


CASES = [
    # template, accepted messages (None: any message that keeps the literal text around the field)
    ("parts {s.split(sep)} end", ["[deep] parts ['a', 'b'] end"]),  # control: same call, separator from a local
    ("parts {s.split(':')} end", ["[deep] parts ['a', 'b'] end"]),
    ("hi {greet('hi!')} end", ["[deep] hi HI! end"]),
    ("balance {account.balance} end", None),
]


def main():
    problems = []
    for template, accepted in CASES:
        for collect in (False, True):
            name = "%r (%s)" % (template, "snapshot+log" if collect else "log only")
            logged, pushed = hit(template, collect)
            if len(logged) != 1:
                problems.append("%s: expected one message, got %r" % (name, logged))
            elif accepted is not None and logged[0] not in accepted:
                problems.append("%s: got %r" % (name, logged[0]))
            elif accepted is None and not (logged[0].startswith("[deep] balance ") and logged[0].endswith(" end")):
                problems.append("%s: got %r" % (name, logged[0]))
            if collect and len(pushed) != 1:
                problems.append("%s: expected one snapshot, got %d" % (name, len(pushed)))
    if problems:
        for problem in problems:
            print("  " + problem)
        print("FAIL")
        return 1
    print("PASS")
    return 0


if __name__ == '__main__':
    sys.exit(main())
