"""
C02 demo 0 (UNMODIFIED tree): a tracepoint that carries a collection limit as an argument - the public way to set a
limit: args {'MAX_COLLECTION_SIZE': '2'} in a poll response or in Deep.register_tracepoint - produces a snapshot that
 (a) names the argument as the int 2, not as the text '2' that the tracepoint has, and therefore
 (b) cannot be converted to protobuf (the args of a tracepoint are a map of strings): convert_snapshot logs
     "Error converting to protobuf" and returns None, PushService._push_task drops the snapshot - nothing is delivered.
The same tracepoint without the limit is converted and delivered.

Run: PYTHONPATH=<tree>/src /venv/bin/python demo0.py   (prints FAIL / exit 1 on the unmodified tree)
"""
import logging
import os
import sys
from concurrent.futures import Future

from deep.api.resource import Resource
from deep.config import ConfigService
from deep.config.tracepoint_config import TracepointConfigService
from deep.processor.trigger_handler import TriggerHandler
from deep.push import convert_snapshot

THIS_FILE = os.path.basename(__file__)
logging.disable(logging.CRITICAL)  # the conversion failure is logged with a traceback, keep the output short


class InlineTasks:
    def submit_task(self, task, *args):
        future = Future()
        task(*args)
        future.set_result(None)
        return future


class Push:
    def __init__(self):
        self.pushed = []

    def push_snapshot(self, snapshot):
        self.pushed.append(snapshot)


def target(items):
    count = len(items)
    return count  # TRACEPOINT


def line_of(marker):
    with open(__file__) as source:
        for number, text in enumerate(source, start=1):
            if text.rstrip().endswith(marker):
                return number
    raise AssertionError('marker not found')


def run(args):
    tracepoints = TracepointConfigService()
    tracepoints.set_task_handler(InlineTasks())
    config = ConfigService({'APP_ROOT': os.path.dirname(os.path.abspath(__file__))}, tracepoints)
    config.resource = Resource.create()
    push = Push()
    handler = TriggerHandler(config, push)
    tracepoints.add_custom(THIS_FILE, line_of('# TRACEPOINT'), args, ['count'], [])
    sys.settrace(handler.trace_call)
    try:
        target([1, 2, 3])
    finally:
        sys.settrace(None)
    return push.pushed


def main():
    failures = []
    for args in ({}, {'MAX_COLLECTION_SIZE': '2'}):
        pushed = run(dict(args))
        if len(pushed) != 1:
            failures.append('args %s: expected one snapshot, got %s' % (args, len(pushed)))
            continue
        snapshot = pushed[0]
        for name, value in args.items():
            named = snapshot.tracepoint.args.get(name)
            if named != value:
                failures.append('args %s: the snapshot names %s as %r, the tracepoint has %r'
                                % (args, name, named, value))
        if convert_snapshot(snapshot) is None:
            failures.append('args %s: the snapshot cannot be converted to protobuf, it is never sent' % (args,))

    if failures:
        print('FAIL')
        for failure in failures:
            print(' -', failure)
        return 1
    print('PASS')
    return 0


if __name__ == '__main__':
    sys.exit(main())
