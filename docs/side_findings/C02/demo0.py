"""
C02 demo 0 (UNMODIFIED tree): with frame_type=all_frame a frame loses its variables when a frame above it runs on the
same locals dict.

eval("...") / exec("...") without explicit namespaces run the code in a new frame ('<module>' of '<string>') whose
f_locals IS the locals dict of the calling function frame (the same object). The collector processes every frame's
locals as one dict value through the identity cache: the second frame with the same dict is 'already known', nothing
is collected for it, and it is delivered with no variables at all - although frame_type=all_frame asks for the variables
of every frame.

Prints PASS / exit 0 if the calling frame carries its locals, FAIL / exit 1 otherwise.
"""
import os
import sys

from deep.api.resource import Resource
from deep.api.tracepoint.constants import FRAME_TYPE, ALL_FRAME_TYPE
from deep.api.tracepoint.trigger import Location, LocationAction, LineLocation, Trigger
from deep.config import ConfigService
from deep.processor.trigger_handler import TriggerHandler
from deep.push.push_service import PushService

THIS_FILE = os.path.abspath(__file__)


class CapturePush(PushService):
    def __init__(self):
        super().__init__(None, None)
        self.pushed = []

    def push_snapshot(self, snapshot):
        self.pushed.append(snapshot)


def helper(value):
    doubled = value * 2  # TRACEPOINT
    return doubled


def caller():
    alpha = 1
    beta = [1, 2]
    return eval("helper(alpha) + len(beta)")


def find_line(marker):
    with open(THIS_FILE) as source:
        for number, text in enumerate(source, start=1):
            if text.rstrip().endswith(marker):
                return number
    raise RuntimeError("marker not found")


def main():
    tp_line = find_line("# TRACEPOINT")
    config = ConfigService({})
    config.resource = Resource.get_empty()
    push = CapturePush()
    handler = TriggerHandler(config, push)
    location = LineLocation(os.path.basename(THIS_FILE), tp_line, Location.Position.START)
    handler.new_config([Trigger(location, [
        LocationAction("tp-1", None, {FRAME_TYPE: ALL_FRAME_TYPE}, LocationAction.ActionType.Snapshot)])])

    def tracer(frame, event, arg):
        handler.trace_call(frame, event, arg)
        return tracer

    old = sys.gettrace()
    sys.settrace(tracer)
    try:
        caller()
    finally:
        sys.settrace(old)

    if len(push.pushed) != 1:
        print("expected one snapshot, have %s" % len(push.pushed))
        print("FAIL")
        return 1
    snapshot = push.pushed[0]
    for frame in snapshot.frames[:4]:
        print(frame.method_name, frame.line_number, sorted(v.name for v in frame.variables)[:6])
    caller_frame = [f for f in snapshot.frames if f.method_name == 'caller'][0]
    names = sorted(v.name for v in caller_frame.variables)
    if names != ['alpha', 'beta']:
        print("frame 'caller' is delivered with variables %s, its locals are ['alpha', 'beta']" % names)
        print("FAIL")
        return 1
    print("PASS")
    return 0


if __name__ == '__main__':
    sys.exit(main())
