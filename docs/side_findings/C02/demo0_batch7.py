"""
C02 demo 0: three things the UNMODIFIED tree already gets wrong (prints FAIL / exits 1 there).

 (a) a watch whose result is the locals dict of the paused frame ('locals()' / 'vars()') is reported with an id that
     does not resolve in the snapshot's variable table: the dict was collected as the root 'locals', that root is
     removed again when the frame is 'unwrapped' and it is only put back for references that exist at that time -
     the watches are evaluated afterwards.
 (b) a watch that reads a local of the paused frame from inside a generator expression or lambda fails with a
     NameError: the expression is evaluated with eval(expr, f_globals, f_locals), nested scopes only see the globals.
 (c) a protected attribute whose name happens to start with '_<ClassName>' (class Order: self._Order_id, self._Orders)
     is reported under a wrong name ('_id', 's'): every name starting with '_Order' is taken for a mangled private name.

Run:  PYTHONPATH=<tree>/src /venv/bin/python demo0.py
"""
import inspect
import logging
import os
import sys

from deep.api.resource import Resource
from deep.api.tracepoint.trigger import build_trigger
from deep.config import ConfigService
from deep.processor.trigger_handler import TriggerHandler
from deep.push.push_service import PushService

logging.disable(logging.CRITICAL)


class CapturePush(PushService):
    def __init__(self):
        super().__init__(None, None)
        self.pushed = []

    def push_snapshot(self, snapshot):
        self.pushed.append(snapshot)


class Order:
    def __init__(self):
        self._Order_id = 7
        self._Orders = ['a']
        self.__secret = 's'
        self.plain = 1


def target(limit):
    data = [1, 5, 9]
    order = Order()
    return data, order  # TRACEPOINT


def tracepoint_line():
    lines, start = inspect.getsourcelines(target)
    for offset, text in enumerate(lines):
        if '# TRACEPOINT' in text:
            return start + offset
    raise RuntimeError("marker not found")


def snapshot_for(watches):
    config = ConfigService({'APP_ROOT': os.path.dirname(os.path.abspath(__file__))})
    config.resource = Resource.get_empty()
    push = CapturePush()
    handler = TriggerHandler(config, push)
    handler.new_config([build_trigger('tp-0', os.path.basename(__file__), tracepoint_line(), {}, watches, [])])
    previous = sys.gettrace()
    sys.settrace(handler.trace_call)
    try:
        target(3)
    finally:
        sys.settrace(previous)
    assert len(push.pushed) == 1
    return push.pushed[0]


def main():
    problems = []
    snapshot = snapshot_for(['locals()', 'sum(v for v in data if v > limit)', '(lambda: limit + 1)()', 'limit + 1'])
    lookup = snapshot.var_lookup
    watches = {watch.expression: watch for watch in snapshot.watches}

    # (a) the result of every watch has to resolve, and describe the value
    watch = watches['locals()']
    if watch.result is None:
        problems.append("(a) watch 'locals()' has no result: %s" % watch.error)
    elif watch.result.vid not in lookup:
        problems.append("(a) watch 'locals()' points at id %s, which is not in the variable table (ids: %s)"
                        % (watch.result.vid, sorted(lookup, key=int)))
    elif lookup[watch.result.vid].value != 'Size: 3':
        problems.append("(a) watch 'locals()' is reported as %r" % lookup[watch.result.vid].value)

    # (b) watches are evaluated against the paused frame: 'limit' and 'data' are locals of it
    control = watches['limit + 1']
    assert control.result is not None and lookup[control.result.vid].value == '4', control
    for expression, expected in [('sum(v for v in data if v > limit)', '14'), ('(lambda: limit + 1)()', '4')]:
        watch = watches[expression]
        if watch.result is None:
            problems.append("(b) watch %r failed in the frame that has these locals: %s" % (expression, watch.error))
        elif lookup[watch.result.vid].value != expected:
            problems.append("(b) watch %r gives %r" % (expression, lookup[watch.result.vid].value))

    # (c) the children of an object are its attributes
    order = [var_id for var_id in snapshot.frames[0].variables if var_id.name == 'order'][0]
    reported = sorted(child.name for child in lookup[order.vid].children)
    expected = sorted(['_Order_id', '_Orders', '__secret', 'plain'])
    if reported != expected:
        problems.append("(c) attributes of Order are reported as %s, expected %s" % (reported, expected))

    if problems:
        for problem in problems:
            print(problem)
        print("FAIL")
        return 1
    print("PASS")
    return 0


if __name__ == '__main__':
    sys.exit(main())
