"""
C04 demo 0: three ways in which the UNMODIFIED tree already violates the property.

 A. two threads reach the tracepoint at the same time: the check (can_trigger) and the recording of the fire
    (record_triggered, when the action context exits) are not one step, so both threads pass the check: fire_count=1, two
    collections.
 B. overlapping hits that are handled out of time order: only the time of the fire that was RECORDED last is kept, so
    after fires at t=10ms and then t=5ms (handled late, allowed: 5ms from the other one) a hit at t=12ms is compared
    with 5ms only and collects, 2ms after the collection at 10ms with fire_period=4.
 C. window_start / window_end given as tracepoint args never reach the action (build_*_action do not copy them into the
    action config), so a tracepoint whose window ended long ago still collects.

Run as: PYTHONPATH=<tree>/src /venv/bin/python demo0.py ; prints FAIL and exits 1 if any of the three is observed.
"""
import os
import sys
import threading
import time

import deep.processor.context.trigger_context as trigger_context_module
from deep.api.resource import Resource
from deep.api.tracepoint.trigger import build_trigger
from deep.config import ConfigService
from deep.config.tracepoint_config import TracepointConfigService
from deep.processor.context.trigger_context import TriggerContext
from deep.processor.trigger_handler import TriggerHandler
from deep.push.push_service import PushService

FILE = os.path.basename(__file__)


class Push(PushService):
    def __init__(self):
        super().__init__(None, None)
        self.pushed = []

    def push_snapshot(self, snapshot):
        self.pushed.append(snapshot)


class Config(ConfigService):
    @property
    def resource(self):
        return Resource.get_empty()


def target(value):
    local = value + 1
    return local  # TRACEPOINT LINE


def line_of(marker):
    with open(__file__) as f:
        for no, text in enumerate(f, 1):
            if text.rstrip().endswith(marker):
                return no
    raise AssertionError(marker)


LINE = line_of("# TRACEPOINT " + "LINE")


def hit(handler, value=1):
    old = sys.gettrace()
    sys.settrace(handler.trace_call)
    try:
        target(value)
    finally:
        sys.settrace(old)


def new_handler(args):
    push = Push()
    handler = TriggerHandler(Config({}, tracepoints=TracepointConfigService()), push)
    trigger = build_trigger("tp-1", FILE, LINE, args, [], [])
    handler.new_config([trigger])
    return handler, push, trigger


class Number:
    """Something target() can add 1 to; shows up in the locals of target()."""

    def __init__(self, payload):
        self.payload = payload

    def __add__(self, other):
        return self


def two_threads_at_the_same_time():
    handler, push, _ = new_handler({'fire_count': '1', 'fire_period': '0'})
    collecting = threading.Event()
    other_done = threading.Event()

    class Slow:
        """Rendered by the collector of the first thread: lets the second thread run its hit meanwhile."""

        def __str__(self):
            collecting.set()
            other_done.wait(10)
            return "slow"

        __repr__ = __str__

    def second():
        collecting.wait(10)
        hit(handler)
        other_done.set()

    thread = threading.Thread(target=second)
    thread.start()
    hit(handler, Number(Slow()))
    thread.join(10)
    collected = len(push.pushed)
    print("A. two threads, fire_count=1: collections=%d -> %s" % (collected, "ok" if collected <= 1 else "VIOLATION"))
    return collected <= 1


def out_of_order_hits():
    config = Config({}, tracepoints=TracepointConfigService())
    push = Push()
    trigger = build_trigger("tp-1", FILE, LINE, {'fire_count': '-1', 'fire_period': '4'}, [], [])
    action = trigger.actions[0]
    base = time.time_ns()
    ms = 1_000_000
    frame = sys._getframe()

    def context_at(offset_ms):
        # the hit time of a trigger is the clock reading taken when its context is created
        real = trigger_context_module.time_ns
        trigger_context_module.time_ns = lambda: base + offset_ms * ms
        try:
            return TriggerContext(config, push, frame, 'line', None)
        finally:
            trigger_context_module.time_ns = real

    def handle(ctx):
        # what TriggerHandler._process_trace_call does with the actions of the location
        with ctx:
            with ctx.action_context(action) as action_ctx:
                if action_ctx.can_trigger():
                    action_ctx.process()

    first = context_at(5)  # this thread is preempted right after its context was created
    second = context_at(10)
    handle(second)
    handle(first)
    third = context_at(12)
    handle(third)

    times = sorted((snapshot.ts_nanos - base) / ms for snapshot in push.pushed)
    gaps = [b - a for a, b in zip(times, times[1:])]
    ok = all(gap >= 4 for gap in gaps)
    print("B. fire_period=4ms, collections at %s ms -> %s" % (times, "ok" if ok else "VIOLATION"))
    return ok


def window_args_are_ignored():
    # a window that ended at 1 (whatever the unit: ms or ns since the epoch) is over
    handler, push, trigger = new_handler({'fire_count': '1', 'fire_period': '0', 'window_start': '0', 'window_end': '1'})
    hit(handler)
    collected = len(push.pushed)
    print("C. window_end='1' (1970), action config=%s: collections=%d -> %s"
          % (sorted(trigger.actions[0].config), collected, "ok" if collected == 0 else "VIOLATION"))
    return collected == 0


def main():
    results = [two_threads_at_the_same_time(), out_of_order_hits(), window_args_are_ignored()]
    if all(results):
        print("PASS")
        return 0
    print("FAIL")
    return 1


if __name__ == '__main__':
    sys.exit(main())
