"""C04 on the UNMODIFIED tree: two ways in which the rate limits are exceeded.

A. The time window (window_start / window_end) given as tracepoint arguments - the only way a window can be given
   through register_tracepoint or a poll response - never reaches the action (build_*_action do not forward it), so a
   hit outside the window collects.
B. The check (can_trigger) and the recording (record_triggered, on leaving the action context) are not one step: two
   threads that reach the tracepoint while the first is still collecting both pass the check, fire_count=1 gives two
   snapshots.

Run: PYTHONPATH=<tree>/src /venv/bin/python demo0.py
"""
import os
import sys
import threading

from deep import logging as dlog
from deep.api.resource import Resource
from deep.config import ConfigService
from deep.config.tracepoint_config import TracepointConfigService
from deep.processor.trigger_handler import TriggerHandler

FILE = os.path.basename(__file__)


class Push:
    def __init__(self):
        self.pushed = []

    def push_snapshot(self, snapshot):
        self.pushed.append(snapshot)


def make(args, watches=()):
    tracepoints = TracepointConfigService()
    config = ConfigService({}, tracepoints=tracepoints)
    config.resource = Resource.get_empty()
    dlog.init(config)
    push = Push()
    handler = TriggerHandler(config, push)
    tracepoints.add_custom(FILE, HIT_LINE, args, list(watches), [])     # what Deep.register_tracepoint does
    tracepoints.update_listeners(0, None, None, None, None)           # no task handler: deliver it ourselves
    return handler, push


def hit(handler):
    handler.trace_call(sys._getframe(), 'line', None)  # HIT


HIT_LINE = hit.__code__.co_firstlineno + 1

failures = []

# --- A: a window that ended in 1970 (whatever the unit), the hit is outside of it
handler, push = make({'window_start': '1', 'window_end': '2', 'fire_count': '-1', 'fire_period': '0'})
hit(handler)
if len(push.pushed) != 0:
    failures.append("A: %d collection(s) outside the configured window [1, 2]" % len(push.pushed))

# --- B: two threads at the tracepoint at the same time, fire_count=1
barrier = threading.Barrier(2)


def gate():
    try:
        barrier.wait(2)
    except threading.BrokenBarrierError:
        pass
    return 1


handler, push = make({'fire_count': '1', 'fire_period': '0'}, watches=['gate()'])
threads = [threading.Thread(target=hit, args=(handler,)) for _ in range(2)]
for t in threads:
    t.start()
for t in threads:
    t.join()
if len(push.pushed) > 1:
    failures.append("B: fire_count=1 but %d collections from two concurrent hits" % len(push.pushed))

if failures:
    print("FAIL")
    for f in failures:
        print("  " + f)
    sys.exit(1)
print("PASS")
