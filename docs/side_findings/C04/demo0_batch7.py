"""
C04 demo 0 (UNMODIFIED tree): two threads that reach the tracepoint at the same time both collect, with fire_count=1
and fire_period=1000.

The check (LocationAction.can_trigger) and the recording of the fire (ActionContext.__exit__ -> record_triggered) are
two separate steps with the whole collection in between, and nothing makes them one step. A second thread that reaches
the line while the first is still collecting sees fire_count 0 / last_fire 0 and collects as well.

Part 1 forces that interleaving: the tracepoint has a watch that waits on a 2-party barrier (0.5 s timeout). The barrier
can only be passed when two threads are inside a collection of this tracepoint at the same time. With an atomic
check-and-claim the second thread would be refused, the first would time out on the barrier (recorded as a watch error)
and there would be exactly one snapshot.

Part 2 uses no cooperation at all: 8 free running threads, released together, hit the line; repeated up to 200 times.

Part 3 is a separate, single threaded finding: build_trigger / build_*_action do not copy window_start / window_end from
the tracepoint args into the action config, so a tracepoint whose window ended long ago still collects.

Run: PYTHONPATH=<tree>/src /venv/bin/python demo0.py
"""
import os
import sys
import threading

from deep.api.resource import Resource
from deep.api.tracepoint.trigger import build_trigger
from deep.config import ConfigService
from deep.processor.trigger_handler import TriggerHandler
from deep.push.push_service import PushService


class RecordingPushService(PushService):
    def __init__(self):
        self.pushed = []

    def push_snapshot(self, snapshot):
        self.pushed.append(snapshot)


class DemoConfigService(ConfigService):
    @property
    def resource(self):
        return Resource.get_empty()


def target(gate, payload):
    size = len(payload)  # the tracepoint is on this line
    return size


FILE = os.path.basename(__file__)
LINE = target.__code__.co_firstlineno + 1


def run(n_threads, watches, gate):
    push = RecordingPushService()
    handler = TriggerHandler(DemoConfigService({}), push)
    handler.new_config([build_trigger('tp-1', FILE, LINE, {'fire_count': '1', 'fire_period': '1000'}, watches, [])])
    start = threading.Barrier(n_threads)
    payload = [{str(i): list(range(20))} for i in range(100)]

    def body():
        start.wait()
        sys.settrace(handler.trace_call)
        try:
            target(gate, payload)
        finally:
            sys.settrace(None)

    threads = [threading.Thread(target=body) for _ in range(n_threads)]
    for t in threads:
        t.start()
    for t in threads:
        t.join()
    return push.pushed


def main():
    failed = False

    # part 1: forced overlap
    gate = threading.Barrier(2)
    snapshots = run(2, ['gate.wait(0.5)'], gate)
    print("part 1 (forced overlap): %d collections with fire_count=1, fire_period=1000" % len(snapshots))
    if len(snapshots) > 1:
        failed = True

    # part 2: free running threads
    worst = 0
    rounds = 0
    for rounds in range(1, 201):
        worst = max(worst, len(run(8, [], None)))
        if worst > 1:
            break
    print("part 2 (free running, 8 threads): max %d collections with fire_count=1 after %d round(s)" % (worst, rounds))
    if worst > 1:
        failed = True

    # part 3 (separate finding, single thread): the window arguments never reach the action
    push = RecordingPushService()
    handler = TriggerHandler(DemoConfigService({}), push)
    for window_end in ('1', 1):  # text as it comes from the service, or a number given in code; long past in any unit
        handler.new_config([build_trigger('tp-w', FILE, LINE, {'fire_count': '1', 'window_end': window_end}, [], [])])
        before = len(push.pushed)
        sys.settrace(handler.trace_call)
        try:
            target(None, [])
        finally:
            sys.settrace(None)
        collected = len(push.pushed) - before
        print("part 3 (window_end=%r, long past): %d collection(s)" % (window_end, collected))
        if collected > 0:
            failed = True

    if failed:
        print("FAIL: fire_count=1 (and fire_period=1000) exceeded by threads hitting the tracepoint at the same time")
        return 1
    print("PASS")
    return 0


if __name__ == '__main__':
    sys.exit(main())
