"""
C20 demo 0 (UNMODIFIED tree): the custom plugins given as a tuple (or any sequence that is not a list) stop the
agent from starting.

load_plugins computes `DEEP_PLUGINS + custom`; list + tuple raises TypeError before any plugin is looked at, and
Deep.start does not guard the call. So `deep.start({'PLUGINS': ('my.Plugin',)})` raises instead of loading the
plugin (or at least skipping it and loading the rest).

Run: PYTHONPATH=<tree>/src /venv/bin/python demo0.py   -> prints FAIL, exit 1 on the unmodified tree
"""
import logging
import os
import sys
import tempfile

logging.disable(logging.CRITICAL)

PLUGIN_SOURCE = '''
from deep.api.attributes import BoundedAttributes
from deep.api.plugin import SnapshotDecorator


class TupleConfigured(SnapshotDecorator):
    def decorate(self, snapshot_id, context):
        return BoundedAttributes(attributes={"tuple_configured": "yes"})
'''


class NoOp:
    def start(self):
        pass

    def shutdown(self):
        pass

    def flush(self):
        pass

    def open(self):
        pass


def main():
    tmp = tempfile.mkdtemp(prefix="c20_demo0_")
    with open(os.path.join(tmp, "c20_tuple_plugin.py"), "w") as handle:
        handle.write(PLUGIN_SOURCE)
    sys.path.insert(0, tmp)

    from deep.api.deep import Deep
    from deep.config import ConfigService

    config = ConfigService({'PLUGINS': ("c20_tuple_plugin.TupleConfigured",),
                            'SERVICE_URL': 'localhost:1', 'SERVICE_SECURE': 'False'})
    agent = Deep(config)
    agent.grpc = NoOp()
    agent.poll = NoOp()
    agent.trigger_handler = NoOp()
    agent.task_handler = NoOp()
    try:
        agent.start()
    except BaseException as e:
        print("FAIL: the agent did not start: %r" % e)
        return 1
    names = [plugin.name for plugin in config.plugins]
    print("loaded plugins:", names)
    if not agent.started or "PythonPlugin" not in names:
        print("FAIL: the agent started without its plugins")
        return 1
    print("PASS")
    return 0


if __name__ == '__main__':
    sys.exit(main())
