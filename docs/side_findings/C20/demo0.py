"""
C20 demo 0: behaviour of the UNMODIFIED tree that does not fit the property under a wide reading of it.

 1) "any order values": a custom plugin whose order() is not comparable with the others' (here a text, '5' - e.g. read
    from configuration) makes load_plugins() raise - nothing is loaded, Deep.start() fails.
 2) "callbacks raising": a snapshot decorator that raises an exception that is not an Exception subclass (here
    asyncio.CancelledError, a BaseException since Python 3.8) costs the whole snapshot, and the decoration of the
    healthy plugin with it.
 3) faulty plugin without raising: a decorator that returns a sequence attribute with a None element (which
    BoundedAttributes accepts on purpose) costs the whole snapshot when it is converted for sending.

Run: PYTHONPATH=<tree>/src /venv/bin/python demo0.py     -> prints FAIL / exit 1 on the unmodified tree
"""
import asyncio
import os
import sys

import deep.logging
from deep.api.attributes import BoundedAttributes
from deep.api.plugin import SnapshotDecorator, load_plugins
from deep.api.resource import Resource
from deep.api.tracepoint.trigger import build_trigger
from deep.config import ConfigService
from deep.processor.trigger_handler import TriggerHandler
from deep.push import convert_snapshot

sys.modules.setdefault('c20_demo0_plugins', sys.modules[__name__])


class TextOrder(SnapshotDecorator):
    def order(self):
        return '5'

    def decorate(self, snapshot_id, context):
        return None


class CancelledDecorator(SnapshotDecorator):
    def decorate(self, snapshot_id, context):
        raise asyncio.CancelledError()


class NoneInSequence(SnapshotDecorator):
    def decorate(self, snapshot_id, context):
        return BoundedAttributes(attributes={'tags': ['a', None]})


class GoodDecorator(SnapshotDecorator):
    def decorate(self, snapshot_id, context):
        return BoundedAttributes(attributes={'demo_decoration': 'present'})


class CollectingPush:
    def __init__(self):
        self.pushed = []

    def push_snapshot(self, snapshot):
        self.pushed.append(snapshot)


def target(x):
    y = x + 1  # <- tracepoint line
    return y


def hit(plugins):
    config = ConfigService({})
    config.resource = Resource.create()
    config.plugins = [p(config=config) for p in plugins]
    push = CollectingPush()
    handler = TriggerHandler(config, push)
    line = target.__code__.co_firstlineno + 1
    handler.new_config([build_trigger('tp-demo0', os.path.basename(__file__), line, {}, [], [])])
    sys.settrace(handler.trace_call)
    try:
        target(41)
    finally:
        sys.settrace(None)
    return push.pushed


def main():
    deep.logging.init(ConfigService({}))
    problems = []

    # 1
    try:
        loaded = load_plugins(ConfigService({}), ['c20_demo0_plugins.TextOrder', 'c20_demo0_plugins.GoodDecorator'])
        if 'GoodDecorator' not in [type(p).__name__ for p in loaded]:
            problems.append("1: healthy plugin not loaded")
    except BaseException as e:
        problems.append("1: load_plugins failed as a whole (Deep.start would fail): %r" % (e,))

    # 2
    pushed = hit([CancelledDecorator, GoodDecorator])
    if len(pushed) != 1:
        problems.append("2: a decorator raising asyncio.CancelledError cost the snapshot (%d delivered)" % len(pushed))

    # 3
    pushed = hit([NoneInSequence, GoodDecorator])
    if len(pushed) != 1:
        problems.append("3: snapshot not handed to the push service")
    elif convert_snapshot(pushed[0]) is None:
        problems.append("3: the snapshot cannot be converted for sending (it is dropped by the push task): "
                        "attributes %r" % (dict(pushed[0].attributes),))

    if problems:
        for problem in problems:
            print("  -", problem)
        print("FAIL")
        return 1
    print("PASS")
    return 0


if __name__ == '__main__':
    sys.exit(main())
