"""
C20 demo 0 (unmodified tree, borderline): declared orders that are not whole numbers are not honoured.

load_plugins sorts by int(plugin.order() or 0). int() truncates towards zero and cannot convert infinity, so
 - a plugin that declares float('inf') ("always last") is sorted as 0 - before a plugin that declares 5;
 - a plugin that declares -0.5 ("just before the built-in ones") is sorted as 0 - after the built-in ones;
 - 0.7 and 0.2 are both 0, so they stay in the order they were written down.
The property says "ordered by their declared order ... any order values"; Plugin.order is annotated '-> int', so this
only counts if fractional / infinite orders are meant to be covered.

Also printed (not counted): DEEP_PLUGINS in the environment is not read (deep.config.PLUGINS exists as [], so the
environment is never consulted) - custom plugins can only be configured in code.

Run: PYTHONPATH=<tree>/src /venv/bin/python demo0.py
"""
import os
import sys

import deep.logging
from deep.api.plugin import load_plugins, Plugin
from deep.config import ConfigService


def plugin_with_order(name, value):
    def order(self):
        return value

    return type(name, (Plugin,), {'order': order})


Last = plugin_with_order('Last', float('inf'))
Five = plugin_with_order('Five', 5)
JustBefore = plugin_with_order('JustBefore', -0.5)
PointSeven = plugin_with_order('PointSeven', 0.7)
PointTwo = plugin_with_order('PointTwo', 0.2)


def main():
    deep.logging.init(ConfigService({}))
    import logging
    logging.disable(logging.CRITICAL)

    module = __name__
    config = ConfigService({'PLUGINS': ['%s.%s' % (module, name) for name in
                                        ('Last', 'Five', 'PointSeven', 'PointTwo', 'JustBefore')]})
    plugins = load_plugins(config, config.PLUGINS)
    names = [plugin.name for plugin in plugins]
    orders = [plugin.order() for plugin in plugins]
    print('loaded :', names)
    print('orders :', orders)

    os.environ['DEEP_PLUGINS'] = '%s.Five' % module
    print('DEEP_PLUGINS=%s -> config.PLUGINS = %r' % (os.environ['DEEP_PLUGINS'], ConfigService({}).PLUGINS))

    if orders != sorted(orders):
        print('the plugins are not in their declared order')
        print('FAIL')
        return 1
    print('PASS')
    return 0


if __name__ == '__main__':
    sys.exit(main())
