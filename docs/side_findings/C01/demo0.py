"""
C01 demo 0: four host programs whose behaviour the UNMODIFIED agent already changes.

Each host is run without the agent and with the agent attached (TriggerHandler installed through its own start()),
and the outcomes are compared. Prints FAIL (exit 1) when any of them differs.

Run: PYTHONPATH=<tree>/src /venv/bin/python demo0.py
"""
import contextlib
import io
import logging
import os
import signal
import sys
import threading
import time

from deep.api.plugin import TracepointLogger
from deep.api.resource import Resource
from deep.api.tracepoint.trigger import build_trigger
from deep.config import ConfigService
from deep.processor.trigger_handler import TriggerHandler
from deep.push.push_service import PushService

logging.getLogger("deep").addHandler(logging.NullHandler())
logging.getLogger("deep").propagate = False
FILE = os.path.basename(__file__)


class Push(PushService):
    def __init__(self):
        super().__init__(None, None)
        self.pushed = []

    def push_snapshot(self, snapshot):
        self.pushed.append(snapshot)


class Logger(TracepointLogger):
    def log_tracepoint(self, log_msg, tp_id, ctx_id):
        pass


class Config(ConfigService):
    @property
    def tracepoint_logger(self):
        return Logger()

    @property
    def resource(self):
        return Resource.get_empty()


def line_of(func, marker):
    import inspect
    lines, start = inspect.getsourcelines(func)
    for idx, text in enumerate(lines):
        if marker in text:
            return start + idx
    raise AssertionError(marker)


def with_agent(triggers, func, *args):
    push = Push()
    handler = TriggerHandler(Config({}), push)
    handler.new_config(triggers)
    handler.start()
    try:
        result = func(*args)
        traced = sys.gettrace() is not None
    finally:
        handler.shutdown()
    return result, traced, push


# ---- 1. exceptions raised by the application's signal handlers are swallowed -------------------------------------

class Timeout(Exception):
    pass


def on_alarm(signum, frame):
    raise Timeout()


def watchdog_host():
    """Busy work guarded by a watchdog timer (the same happens to KeyboardInterrupt on ctrl-c)."""
    signal.setitimer(signal.ITIMER_REAL, 0.05)
    deadline = time.monotonic() + 1.5
    n = 0
    try:
        while time.monotonic() < deadline:
            n += 1
        return "ran to the end"
    except Timeout:
        return "interrupted by the watchdog"
    finally:
        signal.setitimer(signal.ITIMER_REAL, 0)


def check_signal():
    signal.signal(signal.SIGALRM, on_alarm)
    plain = [watchdog_host() for _ in range(3)]
    # the tracepoint is on a line that is never reached: the agent only has to be active
    agent, _, _ = with_agent([build_trigger("tp", FILE, 999999, {}, [], [])], lambda: [watchdog_host() for _ in range(3)])
    return plain == agent, "watchdog: without agent %s, with agent %s" % (plain, agent)


# ---- 2. a closure variable updated by another thread loses updates ------------------------------------------------

def counter_host():
    n = 0

    def bump():
        nonlocal n
        for _ in range(20000):
            n += 1

    worker = threading.Thread(target=bump)
    worker.start()
    spins = 0
    while worker.is_alive():
        spins += 1  # SPIN
    worker.join()
    return n


def check_cell():
    plain = counter_host()
    trigger = build_trigger("tp", FILE, line_of(counter_host, "# SPIN"), {"fire_count": "-1", "fire_period": "0"}, [], [])
    agent, _, push = with_agent([trigger], counter_host)
    return plain == agent, "closure counter: without agent %s, with agent %s (%d snapshots)" % (
        plain, agent, len(push.pushed))


# ---- 3. a recursion that fits the limit gets a RecursionError, and the trace function is removed ------------------

def rec(n):
    if n == 0:
        return 0
    return 1 + rec(n - 1)


def rec_host(depth):
    try:
        return rec(depth)
    except RecursionError:
        return "RecursionError"


def check_recursion():
    old = sys.getrecursionlimit()
    sys.setrecursionlimit(400)
    try:
        depth = 399
        while rec_host(depth) == "RecursionError":
            depth -= 1
        depth -= 2  # two frames of head room
        plain = rec_host(depth)
        agent, traced, _ = with_agent([build_trigger("tp", FILE, 999999, {}, [], [])], rec_host, depth)
    finally:
        sys.setrecursionlimit(old)
    return plain == agent and traced, "recursion depth %d: without agent %s, with agent %s, still traced: %s" % (
        depth, plain, agent, traced)


# ---- 4. warnings from compiling a condition / watch are printed to the application's stderr -----------------------

def plain_host(x):
    y = x + 1  # HERE
    return y


def check_warning():
    out_plain = io.StringIO()
    with contextlib.redirect_stderr(out_plain):
        plain = plain_host(1)
    trigger = build_trigger("tp", FILE, line_of(plain_host, "# HERE"), {"condition": "x is 1"}, ["x is 2"], [])
    out_agent = io.StringIO()
    with contextlib.redirect_stderr(out_agent):
        agent, _, _ = with_agent([trigger], plain_host, 1)
    same = plain == agent and out_plain.getvalue() == out_agent.getvalue()
    return same, "stderr without agent %r, with agent %r" % (out_plain.getvalue(), out_agent.getvalue())


def main():
    failed = False
    for check in (check_signal, check_cell, check_recursion, check_warning):
        ok, text = check()
        print("%s %s: %s" % ("ok  " if ok else "DIFF", check.__name__, text))
        failed = failed or not ok
    print("FAIL" if failed else "PASS")
    return 1 if failed else 0


if __name__ == '__main__':
    sys.exit(main())
