"""
demo0 - three ways in which the UNMODIFIED tree already changes what the host program does (CPython 3.12).

1. finalisation order: every snapshot reads `frame.f_locals` of EVERY frame on the stack (FrameCollector._process_frame
   reads it to look for `self`, also for the frames whose variables are not collected - frame_type single_frame is the
   default). On CPython <= 3.12 that fills (and caches on the frame object) a dict with a reference to every local of
   that frame; it is only refreshed when f_locals is read again (the flag that makes the interpreter refresh it before
   a trace event is reset after the first event). An object that the function - the one with the tracepoint or any of
   its callers - drops afterwards (`del`, rebinding) stays referenced by that dict until the frame ends: __del__ and
   weakref callbacks run later than without the agent, so the output / the order of side effects changes.

2. lost updates in a closure variable shared with another thread: while the trace function runs, the f_locals dict of
   the paused frame holds the values of its cell variables as they were when the dict was filled; when the trace
   function returns CPython writes the dict back (PyFrame_LocalsToFast). Updates another thread made to such a variable
   in between (`nonlocal count; count += 1`) are overwritten with the old value. The longer the snapshot takes (here a
   watch that calls a pure but slow function of the application) the more updates are lost.

3. output: deep.start() with the default config runs logging.config.fileConfig on deep/logging/logging.conf, which
   configures the ROOT logger (level DEBUG, a handler on sys.stdout): debug records of the application that were not
   shown before are now written to its stdout.

Only what Deep.start() / Deep.register_tracepoint() do is used: TriggerHandler.start(), add_custom(), logging.init().
"""
import contextlib
import io
import logging
import os
import sys
import threading
import time

import deep.logging
from deep.api.resource import Resource
from deep.config import ConfigService
from deep.processor.trigger_handler import TriggerHandler
from deep.push.push_service import PushService


class SyncTaskHandler:
    """Runs the tasks (config updates) on the calling thread - no pool, no network."""

    def submit_task(self, task, *args):
        from concurrent.futures import Future
        future = Future()
        future.set_result(task(*args))
        return future


class CollectingPush(PushService):
    def __init__(self):
        super().__init__(None, None)
        self.pushed = []

    def push_snapshot(self, snapshot):
        self.pushed.append(snapshot)


def line_of(marker):
    with open(__file__) as source:
        for number, text in enumerate(source, 1):
            if text.rstrip().endswith('# ' + marker):
                return number


def with_agent(host, marker, args, watches):
    config = ConfigService({'APP_ROOT': os.path.dirname(os.path.abspath(__file__))})
    config.resource = Resource.get_empty()
    config.set_task_handler(SyncTaskHandler())
    push = CollectingPush()
    handler = TriggerHandler(config, push)
    handler.start()
    try:
        config.tracepoints.add_custom(os.path.basename(__file__), line_of(marker), args, watches, [])
        result = host()
    finally:
        handler.shutdown()
    assert len(push.pushed) > 0, "the tracepoint has to have fired"
    return result


# ---- 1: finalisation order -------------------------------------------------------------------------------------------

class Handle:
    """An application object that releases something when it is dropped."""

    def __init__(self, out):
        self.out = out

    def __del__(self):
        self.out.append('handle closed')


def worker(out):
    out.append('worker')  # TP_FINALISE
    return 1


def host_finalise():
    # entered after the agent is started and the tracepoint is installed: an ordinary, fully traced frame
    out = []
    handle = Handle(out)
    worker(out)
    del handle
    out.append('after del')
    return out


# ---- 2: closure variable shared with a thread ------------------------------------------------------------------------

def slow_but_pure(n):
    return sum(range(n))


def host_counter():
    count = 0
    rounds = 200000

    def bump():
        nonlocal count
        for _ in range(rounds):
            count += 1

    thread = threading.Thread(target=bump)
    thread.start()
    for i in range(5):
        marker = i  # TP_COUNTER
        time.sleep(0.001)
    thread.join()
    return 'counted %s of %s' % (count, rounds)


# ---- 3: root logger --------------------------------------------------------------------------------------------------

def host_logging(start_agent):
    stdout = io.StringIO()
    with contextlib.redirect_stdout(stdout):
        start_agent()
        logging.getLogger('shop').debug("a debug detail of the application")
    return stdout.getvalue()[-45:]


if __name__ == '__main__':
    logging.getLogger('deep').addHandler(logging.NullHandler())
    logging.getLogger('deep').propagate = False
    old_sys, old_thread = sys.gettrace(), threading.gettrace()

    checks = [
        ('finalisation order', host_finalise(), with_agent(host_finalise, 'TP_FINALISE', {}, [])),
        ('shared closure variable', host_counter(),
         with_agent(host_counter, 'TP_COUNTER', {'fire_count': '-1', 'fire_period': '0'},
                    ['slow_but_pure(2000000)'])),
    ]
    sys.settrace(old_sys)
    threading.settrace(old_thread)
    checks.append(('application stdout', host_logging(lambda: None),
                   host_logging(lambda: deep.logging.init(ConfigService({})))))

    failed = False
    for name, expected, actual in checks:
        same = expected == actual
        failed = failed or not same
        print("%-24s %s\n    without agent: %r\n    with agent   : %r" % (name, 'same' if same else 'DIFFERENT',
                                                                        expected, actual))
    print("FAIL" if failed else "PASS")
    sys.exit(1 if failed else 0)
