"""
C01 host transparency - two inputs for which the UNMODIFIED tree already changes the host (prints FAIL, exit 1).

Case A (recursion): the host recurses until RecursionError, catches it and goes on. With a tracepoint installed
  anywhere in the file (so that frames are traced) the agent's event handler runs out of stack near the limit; its
  `except BaseException` handler then calls logging.exception(), which needs even more stack (traceback formatting,
  linecache, tokenize) and raises RecursionError again - out of TriggerHandler.trace_call, into the application.
  Python removes the trace function of the thread, so (1) the host sees the error at another depth than without the
  agent and (2) tracing is silently off afterwards: a tracepoint that is reached later never fires.

Case B (attribute hook): the agent reads `value.__dict__` through the normal attribute protocol, so an application
  object without a __dict__ (uses __slots__) that has a __getattr__ hook sees an access it never sees without the
  agent (its record of accesses is part of the program's final data).

Run: PYTHONPATH=<tree>/src /venv/bin/python demo0.py
"""
import os
import sys

from deep.api.resource import Resource
from deep.api.tracepoint.trigger import build_trigger
from deep.config import ConfigService
from deep.processor.trigger_handler import TriggerHandler
from deep.push.push_service import PushService

THIS_FILE = os.path.basename(__file__)


# ---------------------------------------------------------------------------------------------------- the host programs
def descend(depth):
    try:
        return descend(depth + 1)
    except RecursionError:
        return depth


def later_work():
    value = 5  # TRACEPOINT A
    return value


def host_a():
    reached = descend(0)
    return reached, later_work()


class Recorder:
    __slots__ = ('seen',)

    def __init__(self):
        self.seen = []

    def __getattr__(self, name):
        self.seen.append(name)
        raise AttributeError(name)


def use(recorder):
    value = 1  # TRACEPOINT B
    return value


def host_b():
    recorder = Recorder()
    use(recorder)
    return list(recorder.seen)


def line_of(tag):
    with open(__file__) as source:
        for number, text in enumerate(source, start=1):
            if text.rstrip().endswith('# ' + tag):
                return number
    raise RuntimeError('marker not found')


# ------------------------------------------------------------------------------------------------------------ the agent
class CollectingPushService(PushService):
    def __init__(self):
        super().__init__(None, None)
        self.pushed = []

    def push_snapshot(self, snapshot):
        self.pushed.append(snapshot)


class DemoConfig(ConfigService):
    @property
    def resource(self):
        return Resource.get_empty()


def run_with_agent(host, tag):
    push = CollectingPushService()
    handler = TriggerHandler(DemoConfig({}), push)
    handler.new_config([build_trigger('tp-1', THIS_FILE, line_of(tag), {}, [], [])])
    handler.start()
    try:
        outcome = host()
        still_tracing = sys.gettrace() is not None
    finally:
        handler.shutdown()
    return outcome, still_tracing, len(push.pushed)


def main():
    failed = False
    for name, host, tag in [('A recursion', host_a, 'TRACEPOINT A'), ('B attribute hook', host_b, 'TRACEPOINT B')]:
        expected = host()
        actual, still_tracing, snapshots = run_with_agent(host, tag)
        ok = actual == expected and still_tracing and snapshots == 1
        print('case %s: without agent %r, with agent %r, trace function still installed: %s, snapshots: %d -> %s'
              % (name, expected, actual, still_tracing, snapshots, 'ok' if ok else 'VIOLATION'))
        failed = failed or not ok
    print('FAIL' if failed else 'PASS')
    return 1 if failed else 0


if __name__ == '__main__':
    sys.exit(main())
